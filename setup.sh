#!/bin/sh
# Offline setup: hypothesis must import under /venv/bin/python; atheris is optional (thorough fuzz stages).
cd "$(dirname "$0")" || exit 1
/venv/bin/python -c 'import hypothesis' 2>/dev/null || \
  /venv/bin/pip install --no-index --find-links /opt/veriftools/wheels hypothesis || exit 1
if [ ! -d .deps/atheris ]; then
  /venv/bin/pip install --no-index --find-links /opt/veriftools/wheels --target .deps atheris >/dev/null 2>&1 || \
    echo "atheris not installable: fuzz stages will be reported as skipped"
fi
/venv/bin/python -c 'import hypothesis; print("hypothesis", hypothesis.__version__)'
exit 0
