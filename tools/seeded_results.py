#!/venv/bin/python
"""Collects lines of tools/seeded.py runs (given as files, later files override earlier ones per (change, check))
into seeded/RESULTS.md."""
import os
import re
import sys

HERE = os.path.dirname(os.path.dirname(os.path.abspath(__file__)))
rows = {}
for f in sys.argv[1:]:
    for line in open(f, errors="replace"):
        m = re.match(r"(C\d\d-\d+)\s+(C\d\d)\s+(caught|MISSED|harness-error|rc=\d+)\s+([\d.]+)s\s*(.*)", line)
        if m:
            rows[(m.group(1), m.group(2))] = (m.group(3), m.group(4), m.group(5).strip()[:160].replace("|", "\\|"))


def key(k):
    return (int(k[0][1:3]), int(k[0].split("-")[1]), k[1])


out = ["# Registered quick checks run against every seeded change (tools/seeded.py, VERIF_SEED=1)", "",
       "One row per (change, check): the property's own check and, where meta.json lists them under `also`, the",
       "neighbouring checks.  MISSED rows of changes with an `also` / `uncaught` entry are expected (see DESIGN 10.8).", "",
       "| change | check | verdict | seconds | first failure |", "|---|---|---|---|---|"]
for k in sorted(rows, key=key):
    v = rows[k]
    out.append("| %s | %s | %s | %s | %s |" % (k[0], k[1], v[0], v[1], v[2]))
open(os.path.join(HERE, "seeded", "RESULTS.md"), "w").write("\n".join(out) + "\n")
print(len(rows), "rows;", sum(1 for v in rows.values() if v[0] != "caught"), "not caught")
