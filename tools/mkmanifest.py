#!/venv/bin/python
"""Regenerates MANIFEST.json from the table below (one entry per implemented property)."""
import json
import os

HERE = os.path.dirname(os.path.dirname(os.path.abspath(__file__)))

CHECKS = {
 "C01": ("differential testing against an independent reference evaluator (O-SPEC) over generated schema/instance pairs",
         "5/C01", "Exploration: interaction-biased schemas x schema-directed instances for 4 drafts, verdict compared with an evaluator written from the specifications and self-tested on the official suite; bounded by case count and schema size, so absence of violations is not proven.",
         "Trusted: O-SPEC (self-tested on 2164 official suite points at start-up), Python re on the generated regex subset, Fraction arithmetic; multipleOf pairs outside C09's exact sub-domain and format are not judged."),
}

NOT_YET = "check not built yet in this revision of /verif (planned in DESIGN.md section 5)"


def main():
    props = [json.loads(l) for l in open(os.path.join(HERE, "properties.jsonl"))]
    checks = []
    na = []
    for p in props:
        pid = p["id"]
        if pid in CHECKS and os.path.exists(os.path.join(HERE, "pbt", "props", pid.lower() + ".py")):
            tech, ref, text, note = CHECKS[pid]
            checks.append({
                "property_id": pid,
                "quick_cmd": "./check %s --tier quick" % pid,
                "thorough_cmd": "./check %s --tier thorough" % pid,
                "evidence_file": "evidence/%s.json" % pid,
                "replay_cmd_template": "./check %s --replay {path}" % pid,
                "engine": "pbt",
                "level_claimed": {"category": "exploration", "text": text, "design_ref": "DESIGN.md section " + ref},
                "level_note": note,
                "technique": tech,
            })
        else:
            na.append({"property_id": pid, "reason": NOT_YET})
    man = {
        "version": 1,
        "setup_cmd": "./setup.sh",
        "hooks": {"guard": "JSONSCHEMA_VERIF", "enable": "no instrumentation of /repo is needed: checks import the working tree directly (VERIF_REPO overrides the path) and stub the network from outside",
                  "baseline_off_cmd": "cd /repo && /venv/bin/python -m pytest -ra -q -p no:cacheprovider --timeout=900 --continue-on-collection-errors",
                  "source_commits": [], "add_only": True},
        "engines": [{"name": "pbt", "path": "pbt/", "serves_properties": [c["property_id"] for c in checks],
                     "kind_free_text": "Hypothesis-driven generated-input search against explicit oracles (reference models, metamorphic and differential relations), sharded over 16 processes, with structural shrinking to JSON replay files; exhaustive enumeration for small finite sub-spaces; atheris campaigns in thorough tiers"}],
        "checks": checks,
        "not_applicable": na,
        "notes": "Exit codes: 0 held, 1 VIOLATION line, 2 harness error / vacuous distribution (never a VIOLATION). VERIF_SEED, VERIF_TIER, VERIF_SCALE, VERIF_REPO are honoured. known_findings.json lists open findings and fixed defects.",
    }
    with open(os.path.join(HERE, "MANIFEST.json"), "w") as f:
        json.dump(man, f, indent=1)
        f.write("\n")


if __name__ == "__main__":
    main()
