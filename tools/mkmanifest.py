#!/venv/bin/python
"""Regenerates MANIFEST.json from the table below (one entry per implemented property)."""
import json
import os

HERE = os.path.dirname(os.path.dirname(os.path.abspath(__file__)))

CHECKS = {
 "C01": ("differential testing against an independent reference evaluator (O-SPEC) over generated schema/instance pairs",
         "5/C01", "Exploration: interaction-biased schemas x schema-directed instances for 4 drafts, verdict compared with an evaluator written from the specifications and self-tested on the official suite; bounded by case count and schema size, so absence of violations is not proven.",
         "Trusted: O-SPEC (self-tested on 2164 official suite points at start-up), Python re on the generated regex subset, Fraction arithmetic; multipleOf pairs outside C09's exact sub-domain and format are not judged."),
 "C03": ("generated-input search with a typed crash oracle over liberal accepted schemas x hostile instances x entry points, plus exhaustive small-scope enumeration of keyword/value pools",
         "5/C03", "Exploration plus an exhaustively enumerated small scope: every keyword x 60-value pool (and consulted sibling pairs) x 40 hostile instances for 4 drafts, and random liberal/well-meant schemas with hostile instances through 4 entry points x 3 format-checker settings; only documented exception types may escape.",
         "Schemas containing $ref are excluded (cycles / non-string $ref are outside the claim); nesting > 12 and integers > 4000 digits are not generated; hangs only through a 90 s watchdog (reported as inconclusive)."),
 "C08": ("reference-model testing against recursive JSON equality (O-EQ) plus three-way agreement of const / enum / uniqueItems on rewrite-generated value pairs",
         "5/C08", "Exploration: value pairs built by equality-preserving and equality-breaking rewrites at depth 0-3, arrays exercising the hash and brute-force uniqueness paths; const, enum and uniqueItems compared with O-EQ and with each other in every draft.",
         "Trusted: Python's exact int/float comparison; O-EQ written from the JSON data model."),
 "C09": ("reference-model testing against exact rational arithmetic (Fraction) over magnitude-class number generators, plus a complete pool product",
         "5/C09", "Exploration plus an exhaustive 60x60 number-pool product per keyword/draft/flag: comparisons and multipleOf checked against Fraction arithmetic on the exact sub-domain the statement defines, and no exception for any finite operands.",
         "Trusted: fractions.Fraction; the exact sub-domain predicate is written from the statement (pbt/oracle/spec.py mult_in_exact_domain); integers limited to ~2100 digits."),
 "C13": ("differential testing of every format checker against hand-written grammar recognisers on near-miss mutations, free text and exhaustively enumerated token products",
         "5/C13", "Exploration plus exhaustive token products (octets, hex groups, year/month/day tokens): conforms()/check() of every checker object compared with independent recognisers for ipv4, ipv6, date, email, regex; never-raises for all registered formats on arbitrary text.",
         "regex grammar = what re.compile accepts (as the statement defines); date year 0000 and leading zeros in an IPv4 tail of IPv6 are don't-cares; idn-hostname / Draft 3 time only never-raises."),
 "C14": ("round-trip testing: every location of generated documents encoded as RFC 6901 / RFC 3986 fragment and resolved, with identity oracle; typed-failure oracle for pointers that address nothing",
         "5/C14", "Exploration: documents with hostile keys, every location, random optional percent-encoding, identity of the returned object; negative pointers must raise RefResolutionError; also end-to-end through $ref.",
         "Trusted: O-PTR encoder/evaluator (pbt/oracle/pointer.py) written from RFC 6901."),
 "C17": ("reference-model testing of ErrorTree against a dict model over error collections in permuted arrival orders",
         "5/C17", "Exploration: error lists from generated invalid cases of all drafts in generation, reversed and drawn order; construction must not raise, every error is found along its path, iteration/membership/total_errors equal the model, clean elements index to empty trees.",
         "One open known finding (propertyNames errors record a property name as the node instance) is recognised counterfactually and reported as KNOWN-FINDING."),
 "C19": ("model-based scenario testing of the CLI: exit status / stdout / stderr compared with a model computed from library calls over generated file-state scenarios",
         "5/C19", "Exploration: scenarios over schema state x ordered instance states x output mode x error format x --validator x --base-uri, run in-process (and 1/40 as a subprocess), compared unit by unit with the library's own errors.",
         "Diagnostic wording and the particular non-zero status are not asserted."),
 "C02": ("metamorphic testing (errors with $ref == errors of the reference-free expansion built by an independent RFC 3986/6901 resolver) plus differential verdict vs O-SPEC over generated reference worlds",
         "5/C02", "Exploration: multi-document reference worlds (hostile definition names, every reference spelling, chains, recursion, nested ids, store / handler / missing documents, ignored siblings) x instances; error locations compared with the inlined schema, verdict with an independent evaluator and resolver.",
         "Targets reachable only through embedded ids are excluded as the property says; two open known findings (exotic URI schemes, id next to $ref) are recognised counterfactually."),
 "C04": ("differential testing between the four entry points (is_valid / iter_errors / validate / jsonschema.validate) incl. SchemaError field equality, an untouchable instance and repetition",
         "5/C04", "Exploration: valid and invalid schemas x instances x class selection x format checker; the relations the statement lists are checked on every case.",
         "best_match's choice is only required to be a context-free descendant equal to the harness's own best_match call."),
 "C05": ("metamorphic testing (errors(S) == union of per-keyword restrictions) plus per-keyword violation sets against O-SPEC",
         "5/C05", "Exploration: schema objects with interacting keywords x drawn and schema-derived instances; independence of keywords and one-error-per-violation checked at the root (nested levels are produced by the same routine).",
         "O-SPEC self-tested on the official suite; multipleOf pairs outside the exact sub-domain are not judged."),
 "C06": ("validity-predicate testing of every error in the transitive context closure (instance path, schema path with reference hops, parent composition, json_path)",
         "5/C06", "Exploration: C01 cases and reference worlds; navigation invariants on every error incl. errors behind references, resolved with an independent resolver.",
         "Carve-outs exactly as the property lists (Draft 3 required, propertyNames, false schema)."),
 "C10": ("metamorphic testing: insertion of foreign keywords (other drafts' vocabularies taken from the specifications, annotations, later-spec names, unknown names, the other id keyword; any keyword next to $ref) leaves errors unchanged",
         "5/C10", "Exploration: C01 cases and reference worlds x insertion positions x names x 'hot' and arbitrary values; error multisets and exceptions before/after must be equal.",
         "Vocabularies come from O-SPEC's tables, never from the code under test; names a draft's keywords consult are not foreign."),
 "C11": ("differential testing of check_schema against O-SPEC evaluating pinned reference copies of the bundled metaschemas, plus exhaustive keyword x value-pool enumeration",
         "5/C11", "Exploration plus an exhaustive small scope (every keyword x 60 values x 4 wrappers x 4 drafts): acceptance must equal the independent evaluation of the metaschema, only SchemaError may be raised, each metaschema accepted by its class, accepted candidates go to the totality oracle.",
         "Reference metaschemas are pinned copies of the bundled files; format inside metaschemas is not enforced."),
 "C12": ("reference-model testing of the format keyword against a model of (checker table, scripted custom functions), plus metamorphic removal of format without a checker",
         "5/C12", "Exploration: format names x instances of every JSON type x checker configurations incl. scripted functions returning truthy/falsy objects or raising listed/unlisted exceptions; flat, nested (vs O-SPEC) and non-string modes.",
         "For built-in functions conformance is the checker's own conforms(); C13 decides the grammars."),
 "C07": ("model-based stateful testing: generated operation histories on one long-lived validator, each step compared with a fresh validator, plus scope-stack and deep-snapshot invariants",
         "5/C07", "Exploration: histories of 2-14 operations (is_valid, exhaust, validate, early close, dropped iterator, direct resolve / resolving / in_scope with a raising body, document down->up) over reference worlds, and reuse of one validator across many instances on reference-free schemas.",
         "Re-entrancy while an iterator of the same validator is suspended is not claimed; CPython's prompt finalisation of dropped generators is assumed."),
 "C15": ("model-based stateful testing: a family of 6 resolvers (cache_remote x cache functions) driven in lock-step over generated histories with counting / scripted-failure handlers; reference model for resolve()",
         "5/C15", "Exploration: histories of validations and direct resolutions over 1-3 external documents through several URL spellings; transparency across members, at most one successful fetch with caching on, store untouched with caching off, failures wrapped, metaschemas and store documents served locally, no network attempt.",
         "Network is stubbed from outside (urlopen / requests) so every attempt is observable."),
 "C16": ("model-based stateful testing: derivation histories over TypeCheckers, validator classes, validator instances and FormatCheckers with probe vectors recorded at creation and re-checked after every later operation",
         "5/C16", "Exploration: histories of 2-14 derivation operations; every older object's behaviour vector must stay unchanged, extend() without changes equals its parent, overrides change one keyword only.",
         "Type names whose redefinition changes how schemas themselves are read (object/array/string/number) are not redefined; registries restored around each case."),
 "C18": ("schedule exploration: all interleavings (small cases) or drawn schedules of next() steps over 2-3 validators built on colliding world variants, vs solo runs and vs O-SPEC; thread stress",
         "5/C18", "Exploration with exhaustive enumeration of interleavings when <= 7 errors: validators that collide on base URI, $ref strings, remote URLs, patterns and format names must each yield their solo error sequence; solo runs are themselves checked against O-SPEC so that a shared cache cannot hide in sequential use.",
         "Generator interleavings are owned by the harness; pre-emptive thread schedules are only provoked (switch interval 1e-6), not enumerated."),
 "C20": ("reference-model testing of validator_for against a table model (incl. DeprecationWarning), behavioural differential of validate()/CLI vs the selected class on draft-discriminating families, and registration histories",
         "5/C20", "Exploration: $schema spellings x defaults; 20 schema/instance families on which drafts disagree through jsonschema.validate and the CLI with/without explicit class; histories of 1-6 registrations with fresh and clashing ids, every id looked up after every step.",
         "Spellings that only match after URI normalisation (case, leading blanks) are not judged."),
}

NOT_YET = "check not built yet in this revision of /verif (planned in DESIGN.md section 5)"


def main():
    props = [json.loads(l) for l in open(os.path.join(HERE, "properties.jsonl"))]
    checks = []
    na = []
    for p in props:
        pid = p["id"]
        if pid in CHECKS and os.path.exists(os.path.join(HERE, "pbt", "props", pid.lower() + ".py")):
            tech, ref, text, note = CHECKS[pid]
            checks.append({
                "property_id": pid,
                "quick_cmd": "./check %s --tier quick" % pid,
                "thorough_cmd": "./check %s --tier thorough" % pid,
                "evidence_file": "evidence/%s.json" % pid,
                "replay_cmd_template": "./check %s --replay {path}" % pid,
                "engine": "pbt",
                "level_claimed": {"category": "exploration", "text": text, "design_ref": "DESIGN.md section " + ref},
                "level_note": note,
                "technique": tech,
            })
        else:
            na.append({"property_id": pid, "reason": NOT_YET})
    man = {
        "version": 1,
        "setup_cmd": "./setup.sh",
        "hooks": {"guard": "JSONSCHEMA_VERIF", "enable": "no instrumentation of /repo is needed: checks import the working tree directly (VERIF_REPO overrides the path) and stub the network from outside",
                  "baseline_off_cmd": "cd /repo && /venv/bin/python -m pytest -ra -q -p no:cacheprovider --timeout=900 --continue-on-collection-errors",
                  "source_commits": [], "add_only": True},
        "engines": [{"name": "pbt", "path": "pbt/", "serves_properties": [c["property_id"] for c in checks],
                     "kind_free_text": "Hypothesis-driven generated-input search against explicit oracles (reference models, metamorphic and differential relations), sharded over 16 processes, with structural shrinking to JSON replay files; exhaustive enumeration for small finite sub-spaces; atheris campaigns in thorough tiers"}],
        "checks": checks,
        "not_applicable": na,
        "notes": "Exit codes: 0 held, 1 VIOLATION line, 2 harness error / vacuous distribution (never a VIOLATION). VERIF_SEED, VERIF_TIER, VERIF_SCALE, VERIF_REPO are honoured. known_findings.json lists open findings and fixed defects.",
    }
    with open(os.path.join(HERE, "MANIFEST.json"), "w") as f:
        json.dump(man, f, indent=1)
        f.write("\n")


if __name__ == "__main__":
    main()
