#!/bin/sh
# usage: tools/runall.sh [tier] seed...   -- runs every registered check once per seed, prints one line each
cd "$(dirname "$0")/.." || exit 2
TIER=quick
case "$1" in quick|thorough) TIER=$1; shift;; esac
[ $# -eq 0 ] && set -- 1
export VERIF_OUT="${VERIF_OUT:-$(mktemp -d /tmp/verif_out_XXXXXX)}"
mkdir -p "$VERIF_OUT"
for seed in "$@"; do
  for p in C01 C02 C03 C04 C05 C06 C07 C08 C09 C10 C11 C12 C13 C14 C15 C16 C17 C18 C19 C20; do
    t0=$(date +%s)
    VERIF_SEED=$seed ./check $p --tier $TIER > "$VERIF_OUT/$p.$seed.log" 2>&1
    rc=$?
    echo "$p seed=$seed rc=$rc $(( $(date +%s) - t0 ))s $(grep -c KNOWN-FINDING "$VERIF_OUT/$p.$seed.log") known $(grep -E 'VIOLATION|HARNESS' "$VERIF_OUT/$p.$seed.log" | head -2 | tr '\n' ' ' | cut -c1-200)"
  done
done
echo "logs in $VERIF_OUT"
