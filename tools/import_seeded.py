#!/venv/bin/python
"""Verify sub-agent deliverables in /tmp/seed_out_<Cnn>/ (patchN.diff, demoN.py, metaN.json) against the scratch
worktree /tmp/seed_wt_<Cnn>: demo exits 0 clean / 1 patched and the unedited baseline still passes; confirmed ones are
copied to seeded/<Cnn>-<k>/ (k continues after existing entries).  Usage: tools/import_seeded.py C01 C02 ..."""
import json, os, shutil, subprocess, sys
def sh(cmd, cwd=None):
    r=subprocess.run(cmd, shell=True, cwd=cwd, stdout=subprocess.PIPE, stderr=subprocess.STDOUT, text=True)
    return r.returncode, r.stdout
for pid in sys.argv[1:]:
    out='/tmp/seed_out_%s'%pid; wt='/tmp/seed_wt_%s'%pid
    for n in (1,2,3):
        pf='%s/patch%d.diff'%(out,n)
        if not os.path.exists(pf): continue
        sh('git checkout -- . && git clean -fdq', wt)
        rc0,o0=sh('/venv/bin/python %s/demo%d.py'%(out,n), wt)
        rc,o=sh('git apply %s'%pf, wt)
        if rc: print(pid,n,'patch does not apply',o[:200]); continue
        rc1,o1=sh('/venv/bin/python %s/demo%d.py'%(out,n), wt)
        rct,ot=sh('/venv/bin/python -m pytest -q -p no:cacheprovider -n 6 2>&1 | tail -1', wt)
        sh('git checkout -- . && git clean -fdq', wt)
        ok = rc0==0 and rc1==1 and '3210 passed' in ot
        print(pid,n,'demo clean rc=%d patched rc=%d tests: %s => %s'%(rc0,rc1,ot.strip(), 'CONFIRMED' if ok else 'REJECTED'))
        if ok:
            k=1
            while os.path.exists('/verif/seeded/%s-%d'%(pid,k)): k+=1
            d='/verif/seeded/%s-%d'%(pid,k); os.makedirs(d,exist_ok=True)
            shutil.copy(pf,d+'/patch.diff'); shutil.copy('%s/demo%d.py'%(out,n),d+'/demo.py')
            meta=json.load(open('%s/meta%d.json'%(out,n)))
            meta['property']=pid
            meta['confirmed']={'demo_exit_clean':rc0,'demo_exit_patched':rc1,'baseline_with_patch':ot.strip(),'how':'applied with git apply in a scratch worktree of /repo HEAD (fix commits included), demo run from the worktree, full pytest suite run'}
            json.dump(meta,open(d+'/meta.json','w'),indent=1)
