#!/venv/bin/python
"""Systematic single-token mutation of the library (AST-located, text-applied) to look for blind spots.
For every mutant: (1) run the repository's own test suite; mutants it kills are not interesting;
(2) run the quick checks mapped to the mutated function with VERIF_REPO pointing at a scratch copy.
Output: one line per test-suite survivor with the verdict of each mapped check.
Usage: tools/automutate.py [--files a.py,b.py] [--limit N] [--shard i/n] [--scale 0.4]"""
import ast
import os
import shutil
import subprocess
import sys
import tempfile
import time

HERE = os.path.dirname(os.path.dirname(os.path.abspath(__file__)))
FILES = ["_validators.py", "_legacy_validators.py", "_utils.py", "validators.py", "exceptions.py", "_format.py",
         "_types.py", "cli.py"]

# which checks should notice a change in which function (default per file)
MAP = {
    "_validators.py": ["C01", "C05", "C06"], "_legacy_validators.py": ["C01", "C05", "C06"],
    "_utils.py": ["C01", "C08", "C02"], "_types.py": ["C01", "C16"], "_format.py": ["C13", "C12", "C16"],
    "cli.py": ["C19", "C20"], "exceptions.py": ["C04", "C06", "C17"],
    "validators.py": ["C02", "C07", "C15", "C04"],
}
FUNC = {
    "format": ["C12"], "ref": ["C02", "C07", "C18"], "enum": ["C08", "C01"], "const": ["C08", "C01"],
    "uniqueItems": ["C08", "C01"], "uniq": ["C08"], "equal": ["C08"], "unbool": ["C08"],
    "multipleOf": ["C09", "C01"], "minimum": ["C09", "C01"], "maximum": ["C09", "C01"],
    "exclusiveMinimum": ["C09", "C01"], "exclusiveMaximum": ["C09", "C01"],
    "minimum_draft3_draft4": ["C09", "C01"], "maximum_draft3_draft4": ["C09", "C01"],
    "resolve_fragment": ["C14", "C02"], "resolve_remote": ["C15", "C07"], "resolve_from_url": ["C15", "C02"],
    "resolve": ["C02", "C15"], "push_scope": ["C02", "C07"], "pop_scope": ["C07", "C02"], "in_scope": ["C07"],
    "resolving": ["C07"], "__init__": ["C15", "C18", "C02", "C16", "C12"], "from_schema": ["C02", "C15"],
    "validator_for": ["C20"], "validates": ["C20", "C16"], "_validates": ["C20", "C16"], "validate": ["C04", "C20"],
    "extend": ["C16"], "create": ["C16", "C20"], "check_schema": ["C11", "C04"], "iter_errors": ["C01", "C05", "C06", "C02", "C07"],
    "descend": ["C06", "C01"], "is_valid": ["C04", "C01"], "is_type": ["C03", "C16", "C01"],
    "best_match": ["C04"], "relevance": ["C04"], "by_relevance": ["C04"], "create_from": ["C04"], "_contents": ["C04"],
    "absolute_path": ["C06"], "absolute_schema_path": ["C06"], "json_path": ["C06"], "_set": ["C06", "C05"],
    "total_errors": ["C17"], "__getitem__": ["C17", "C02"], "__contains__": ["C17"], "__iter__": ["C17", "C02"],
    "__len__": ["C17"], "__setitem__": ["C17", "C02", "C15"], "normalize": ["C02", "C15", "C20"],
    "find_additional_properties": ["C01"], "types_msg": ["C05", "C01"], "extras_msg": ["C05"],
    "ensure_list": ["C01"], "redefine": ["C16"], "redefine_many": ["C16"], "remove": ["C16"],
    "_generate_legacy_type_checks": ["C16"], "gen_type_check": ["C16"], "type_check": ["C16"],
    "checks": ["C12", "C16"], "_checks": ["C12", "C16"], "check": ["C12", "C13"], "conforms": ["C12", "C13"],
}

CMP = {ast.Lt: "<=", ast.LtE: "<", ast.Gt: ">=", ast.GtE: ">", ast.Eq: "!=", ast.NotEq: "==",
       ast.In: "not in", ast.NotIn: "in", ast.Is: "is not", ast.IsNot: "is"}
CMP_TXT = {ast.Lt: "<", ast.LtE: "<=", ast.Gt: ">", ast.GtE: ">=", ast.Eq: "==", ast.NotEq: "!=",
           ast.In: "in", ast.NotIn: "not in", ast.Is: "is", ast.IsNot: "is not"}


def sites(path):
    src = open(path).read()
    lines = src.splitlines(True)
    offs = [0]
    for l in lines:
        offs.append(offs[-1] + len(l))
    tree = ast.parse(src)

    def pos(node, end=False):
        return offs[(node.end_lineno if end else node.lineno) - 1] + (node.end_col_offset if end else node.col_offset)
    out = []

    def visit(node, func):
        for child in ast.iter_child_nodes(node):
            f = child.name if isinstance(child, (ast.FunctionDef, ast.AsyncFunctionDef)) else func
            visit(child, f)
        if isinstance(node, ast.Compare) and len(node.ops) == 1:
            a, b = pos(node.left, True), pos(node.comparators[0])
            op = node.ops[0]
            txt = src[a:b]
            if type(op) in CMP and CMP_TXT[type(op)] in txt:
                out.append((func, node.lineno, "cmp %s->%s" % (CMP_TXT[type(op)], CMP[type(op)]), a, b,
                            txt.replace(CMP_TXT[type(op)], CMP[type(op)], 1)))
        elif isinstance(node, ast.BoolOp):
            a, b = pos(node.values[0], True), pos(node.values[1])
            txt = src[a:b]
            old, new = ("and", "or") if isinstance(node.op, ast.And) else ("or", "and")
            if old in txt:
                out.append((func, node.lineno, "%s->%s" % (old, new), a, b, txt.replace(old, new, 1)))
        elif isinstance(node, ast.UnaryOp) and isinstance(node.op, ast.Not):
            a, b = pos(node), pos(node.operand)
            out.append((func, node.lineno, "drop not", a, b, ""))
        elif isinstance(node, ast.Constant) and isinstance(node.value, bool):
            a, b = pos(node), pos(node, True)
            out.append((func, node.lineno, "%s->%s" % (node.value, not node.value), a, b, str(not node.value)))
        elif isinstance(node, ast.Constant) and isinstance(node.value, int) and node.value in (0, 1):
            a, b = pos(node), pos(node, True)
            out.append((func, node.lineno, "%d->%d" % (node.value, 1 - node.value), a, b, str(1 - node.value)))
        elif isinstance(node, ast.Continue):
            a, b = pos(node), pos(node, True)
            out.append((func, node.lineno, "continue->break", a, b, "break"))
        elif isinstance(node, ast.Break):
            a, b = pos(node), pos(node, True)
            out.append((func, node.lineno, "break->continue", a, b, "continue"))
        elif isinstance(node, ast.Expr) and isinstance(node.value, ast.Yield) and func:
            a, b = pos(node), pos(node, True)
            out.append((func, node.lineno, "drop yield", a, b, "pass"))
        elif isinstance(node, ast.If) and not node.orelse and len(node.body) == 1 and isinstance(node.body[0], ast.Return) and node.body[0].value is None:
            a, b = pos(node.test), pos(node.test, True)
            out.append((func, node.lineno, "guard->False", a, b, "False"))
    visit(tree, None)
    return src, out


def main(argv):
    files, limit, shard, scale = FILES, None, (0, 1), "0.4"
    i = 0
    while i < len(argv):
        if argv[i] == "--files":
            files = argv[i + 1].split(",")
        elif argv[i] == "--limit":
            limit = int(argv[i + 1])
        elif argv[i] == "--shard":
            a, b = argv[i + 1].split("/")
            shard = (int(a), int(b))
        elif argv[i] == "--scale":
            scale = argv[i + 1]
        i += 2
    all_sites = []
    for f in files:
        src, ss = sites(os.path.join("/repo/jsonschema", f))
        for s in ss:
            all_sites.append((f, src) + s)
    print("# %d mutation sites" % len(all_sites), flush=True)
    n = 0
    for idx, (f, src, func, line, what, a, b, new) in enumerate(all_sites):
        if idx % shard[1] != shard[0]:
            continue
        if limit is not None and n >= limit:
            break
        n += 1
        tmp = tempfile.mkdtemp(prefix="jsauto_", dir="/tmp")
        out = tempfile.mkdtemp(prefix="jsautoout_", dir="/tmp")
        try:
            shutil.copytree("/repo/jsonschema", os.path.join(tmp, "jsonschema"), ignore=shutil.ignore_patterns("__pycache__"))
            os.symlink("/repo/json", os.path.join(tmp, "json"))
            with open(os.path.join(tmp, "jsonschema", f), "w") as fh:
                fh.write(src[:a] + new + src[b:])
            r = subprocess.run(["/venv/bin/python", "-c", "import jsonschema, jsonschema.cli"], cwd=tmp,
                               stdout=subprocess.PIPE, stderr=subprocess.STDOUT)
            tag = "%s:%d %s [%s]" % (f, line, func, what)
            if r.returncode != 0:
                print("%-70s does-not-import" % tag, flush=True)
                continue
            r = subprocess.run(["/venv/bin/python", "-m", "pytest", "-q", "-x", "-p", "no:cacheprovider", "-n", "6",
                                "--timeout=300", "jsonschema"], cwd=tmp, stdout=subprocess.PIPE, stderr=subprocess.STDOUT, text=True)
            if r.returncode != 0:
                print("%-70s killed-by-tests" % tag, flush=True)
                continue
            checks = FUNC.get(func) or MAP[f]
            verdicts = []
            for pid in checks:
                env = dict(os.environ, VERIF_REPO=tmp, VERIF_OUT=out, VERIF_NO_SHRINK="1", VERIF_SCALE=scale)
                t0 = time.time()
                rr = subprocess.run([os.path.join(HERE, "check"), pid], env=env, stdout=subprocess.PIPE,
                                    stderr=subprocess.STDOUT, text=True)
                verdicts.append("%s=%s" % (pid, {0: "MISSED", 1: "caught", 2: "harness"}.get(rr.returncode, "?")))
                if rr.returncode == 1:
                    break
            st = "CAUGHT" if any("caught" in v for v in verdicts) else "SURVIVED-ALL"
            print("%-70s tests-pass %s %s" % (tag, st, " ".join(verdicts)), flush=True)
        finally:
            shutil.rmtree(tmp, ignore_errors=True)
            shutil.rmtree(out, ignore_errors=True)


if __name__ == "__main__":
    main(sys.argv[1:])
