#!/venv/bin/python
"""Regenerates section 10.8 of DESIGN.md from seeded/*/meta.json and seeded/NOTES.json (what each miss changed)."""
import json
import os
import re

HERE = os.path.dirname(os.path.dirname(os.path.abspath(__file__)))
notes = json.load(open(os.path.join(HERE, "seeded", "NOTES.json")))
rows = []
names = sorted(n for n in os.listdir(os.path.join(HERE, "seeded")) if os.path.isdir(os.path.join(HERE, "seeded", n)))
for name in names:
    m = json.load(open(os.path.join(HERE, "seeded", name, "meta.json")))
    what = re.sub(r"\s+", " ", m["what"]).strip()
    short = what.split(". ")[0][:230].replace("|", "\\|")
    out = "caught by %s" % m["property"]
    if m.get("uncaught"):
        out = "NOT caught by any check"
    elif m.get("also"):
        out = "NOT caught by %s itself (see note); caught by %s" % (m["property"], ", ".join(m["also"]))
    if name in notes:
        out += "; " + ("first MISSED, then: " if not (m.get("also") or m.get("uncaught")) else "") + notes[name]
    rows.append("| %s | %s | %s | %s |" % (name, ", ".join(m.get("files", [])).replace("jsonschema/", ""), short, out))
text = """
### 10.8 Independently seeded breaking changes (`seeded/<Cnn-k>/`, `tools/seeded.py`)

%d changes were written by fresh sub-agents in ten rounds; each agent was given only the text of one
property and a scratch worktree of /repo (nothing from /verif); from the second round on, the agents were also
told which changes already existed for their property and asked for a different mechanism and site.  Each change
is kept with its patch, the agent's demonstration program and `meta.json`; I confirmed every one myself in a
scratch worktree (`tools/import_seeded.py`): the patch applies to /repo HEAD, the unedited baseline still reports
3210 passed / 224 skipped with it, the demonstration exits 0 on the clean tree and 1 with the patch.  The checks
are run against a scratch copy with the patch applied (`VERIF_REPO`), never against /repo.  %d were caught by the
quick tier of the property's own check as it stood when the change arrived; %d were missed (most of them were
caught by a neighbouring property's check, e.g. a scope leak seeded under C04 by C07) and led to the generator /
oracle changes named in the last column, after which the property's own check catches them and the unchanged
tree stays quiet.  The third round, which asked for variety beyond caches, was the hardest (15 of 28 missed); for the fourth round (40 changes) the descriptions were read first and about a dozen gaps were closed before running them, 6 were still missed; the fifth round (40 changes, agents asked for the hardest-to-notice change incl. non-JSON Python types and hangs) was treated the same way, 8 were still missed; the sixth round (40 changes, agents given the list of everything already seeded for their property and asked for what is left: untouched keywords, drafts and branches, two cooperating edits, boundaries, ordering assumptions) was run without reading the descriptions first: 13 were missed, one of them because of a slip in the harness itself (C19-9) and one as a harness error (C07-10); the seventh round (40 changes; agents asked for sites no earlier change touches, maintainer-style edits such as backports of later upstream features, effects visible only in secondary observables, and histories) was the most productive: 26 were missed at first.  One of its changes (a oneOf message naming only two of three matching subschemas) was dropped again: the listed properties say nothing about the wording of messages, so it breaks none of them.  The eighth round (40 changes) asked for the blind spots of a randomised tester -- size thresholds, rare coincidences between independently drawn parts, object identity and aliasing, state left behind by a call that died half-way; this time the agents' summaries were read first and the generators widened (sizes beyond 32, aliased parts, keyword-like names, deep recursion ...) before the run: of the 40, 12 were caught by what existed before the round, the others needed the additions named in the last column, one (C07-13) is not caught and one (C11-11) only in mirror image by C02.  The ninth round (40 changes) asked for triggers of a kind no earlier change had used (negative halves, single drafts' own keywords, two features combined, Python-level behaviour of the API objects, boundary values); 24 were caught as things stood (a handful thanks to additions made from the agents' summaries before the run), 10 needed the additions named in the last column, 5 are seen only by a neighbouring property's check and one (C18-15, a thread race of a few bytecodes) by none.  The tenth round (14 changes for the seven properties with the fewest so far: C05 C08 C09 C11 C13 C14 C17; the ninth round's prompt, 15 minutes per agent) was run in a later, short session without reading the summaries first: 13 were caught as things stood (sibling-keyword suppression after a type failure, required/dependencies de-duplication, a (type, value) set key and a one-sided string guard in the equality helpers, inf.is_integer() and float subtraction in the numeric keywords, check_schema following the candidate's $schema, week dates and a leading '@', double percent-decoding and leading-zero indices, ErrorTree construction through __getitem__ and a cached total_errors counter); one (C11-16, a json.dumps shortcut in uniq() that tells 1 from 1.0 inside unhashable items and shows only through the Draft 3 metaschema's unique type / disallow arrays) was missed by C11 and led to the addition named in its row.

A complete re-run of every registered check against all 307 changes of the first nine rounds (`seeded/RESULTS.md`, built by
`tools/seeded_results.py` from the run logs) showed that detection of six earlier changes had been LOST through later
generator work: C05-9 and C10-4 (the new large / extreme probes had taken places in the fixed probe budget and
displaced the small probes that exposed them -- they now come on top of the budget), C10-10 (placing foreign
keywords next to their partner keyword left too few random placements -- one-keyword subschemas at verdict-only
positions were added to the schema grammar), C18-5 (every validator but the first had been given a subclassed
checker for C18-8 -- the checker style is now drawn per case), C18-9 (a property added for C18-11 happened to match
the variants' pattern `^v` -- renamed) and C20-6 (caught only by C19 -- C20's CLI families now contain a local
reference below a root id).  All six are caught again; the remaining MISSED rows of that file are exactly the
changes marked below as seen only by a neighbouring check or by none.

| change | files | what it does (first sentence of the author's description) | outcome |
|---|---|---|---|
""" % (len(names), len(names) - len([n for n in names if n in notes]), len([n for n in names if n in notes])) + "\n".join(rows) + "\n"
p = os.path.join(HERE, "DESIGN.md")
s = open(p).read()
if "\n### 10.8" in s:
    s = s[:s.index("\n### 10.8")]
open(p, "w").write(s.rstrip("\n") + "\n" + text)
