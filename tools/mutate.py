#!/venv/bin/python
"""Sensitivity protocol: apply one deliberate break to a scratch copy of /repo, run the
quick check(s) of the properties it should violate with VERIF_REPO pointing at the copy,
expect exit 1, remove the copy.  Usage: tools/mutate.py [mutant-id ...] [--props C01,C05] [--tier quick]"""
import json
import os
import shutil
import subprocess
import sys
import tempfile
import time

HERE = os.path.dirname(os.path.dirname(os.path.abspath(__file__)))
sys.path.insert(0, HERE)
from mutants.table import MUTANTS   # noqa: E402


def make_copy(m):
    tmp = tempfile.mkdtemp(prefix="jsmut_", dir="/tmp")
    shutil.copytree("/repo/jsonschema", os.path.join(tmp, "jsonschema"),
                    ignore=shutil.ignore_patterns("__pycache__"))
    os.symlink("/repo/json", os.path.join(tmp, "json"))
    for f, old, new in m["edits"]:
        p = os.path.join(tmp, f)
        s = open(p).read()
        if s.count(old) < 1:
            raise LookupError("mutant %s: pattern not found in %s: %r" % (m["id"], f, old[:80]))
        s = s.replace(old, new, 1)
        open(p, "w").write(s)
    return tmp


def main(argv):
    tier = "quick"
    only_props = None
    ids = []
    i = 0
    while i < len(argv):
        if argv[i] == "--props":
            only_props = argv[i + 1].split(",")
            i += 2
        elif argv[i] == "--tier":
            tier = argv[i + 1]
            i += 2
        elif argv[i] == "--write":
            i += 1
        else:
            ids.append(argv[i])
            i += 1
    rows = []
    for m in MUTANTS:
        if ids and m["id"] not in ids:
            continue
        props = [p for p in m["props"] if not only_props or p in only_props]
        if not props:
            continue
        try:
            tmp = make_copy(m)
        except LookupError as e:
            rows.append((m["id"], "-", "STALE-MUTANT", 0.0, str(e)[:140]))
            print("%-34s %-4s %-13s %6.1fs %s" % rows[-1], flush=True)
            continue
        out = tempfile.mkdtemp(prefix="jsmutout_", dir="/tmp")
        try:
            for pid in props:
                if not os.path.exists(os.path.join(HERE, "pbt", "props", pid.lower() + ".py")):
                    continue
                env = dict(os.environ, VERIF_REPO=tmp, VERIF_OUT=out, VERIF_NO_SHRINK="1")
                t0 = time.time()
                r = subprocess.run([os.path.join(HERE, "check"), pid, "--tier", tier], env=env,
                                   stdout=subprocess.PIPE, stderr=subprocess.STDOUT, text=True)
                lines = [l for l in r.stdout.splitlines() if "bucket=" in l or l.startswith("HARNESS")]
                verdict = {0: "SURVIVED", 1: "killed", 2: "harness-error"}.get(r.returncode, "rc=%d" % r.returncode)
                rows.append((m["id"], pid, verdict, round(time.time() - t0, 1), (lines[0][:160] if lines else "")))
                print("%-34s %-4s %-13s %6.1fs %s" % rows[-1], flush=True)
        finally:
            shutil.rmtree(tmp, ignore_errors=True)
            shutil.rmtree(out, ignore_errors=True)
    if "--write" in argv or not ids:
        with open(os.path.join(HERE, "mutants", "RESULTS.md"), "w") as f:
            f.write("# Sensitivity protocol results (tools/mutate.py, quick tier, VERIF_SEED=%s)\n\n" % os.environ.get("VERIF_SEED", "1"))
            f.write("| mutant | check | verdict | seconds | first failure |\n|---|---|---|---|---|\n")
            for r in rows:
                f.write("| %s | %s | %s | %.0f | %s |\n" % (r[0], r[1], r[2], r[3], r[4].replace("|", "\\|")[:140]))
            killed = set(r[0] for r in rows if r[2] == "killed")
            allm = set(r[0] for r in rows)
            f.write("\n%d mutants, %d killed by at least one named check; not killed by any: %s\n" % (
                len(allm), len(killed), ", ".join(sorted(allm - killed)) or "none"))
    return rows


if __name__ == "__main__":
    main([a for a in sys.argv[1:]])
