#!/venv/bin/python
"""Run the registered checks against the independently seeded breaking changes kept in seeded/<name>/.
Each is applied to a scratch copy of /repo (never to /repo itself) and the property's check is run with
VERIF_REPO pointing at the copy.  Usage: tools/seeded.py [name ...] [--tier quick] [--all-props]"""
import json
import os
import shutil
import subprocess
import sys
import tempfile
import time

HERE = os.path.dirname(os.path.dirname(os.path.abspath(__file__)))


def main(argv):
    tier = "quick"
    names = []
    extra_props = None
    i = 0
    while i < len(argv):
        if argv[i] == "--tier":
            tier = argv[i + 1]
            i += 2
        elif argv[i] == "--props":
            extra_props = argv[i + 1].split(",")
            i += 2
        else:
            names.append(argv[i])
            i += 1
    root = os.path.join(HERE, "seeded")
    for name in sorted(os.listdir(root)):
        d = os.path.join(root, name)
        if names and name not in names or not os.path.isdir(d):
            continue
        meta = json.load(open(os.path.join(d, "meta.json")))
        tmp = tempfile.mkdtemp(prefix="jsseed_", dir="/tmp")
        out = tempfile.mkdtemp(prefix="jsseedout_", dir="/tmp")
        try:
            shutil.copytree("/repo/jsonschema", os.path.join(tmp, "jsonschema"), ignore=shutil.ignore_patterns("__pycache__"))
            os.symlink("/repo/json", os.path.join(tmp, "json"))
            r = subprocess.run(["patch", "-p1", "-s", "-i", os.path.join(d, "patch.diff")], cwd=tmp,
                               stdout=subprocess.PIPE, stderr=subprocess.STDOUT, text=True)
            if r.returncode != 0:
                print("%-28s patch does not apply: %s" % (name, r.stdout[:200]))
                continue
            for pid in (extra_props or [meta["property"]] + meta.get("also", [])):
                env = dict(os.environ, VERIF_REPO=tmp, VERIF_OUT=out, VERIF_NO_SHRINK="1")
                t0 = time.time()
                r = subprocess.run([os.path.join(HERE, "check"), pid, "--tier", tier], env=env,
                                   stdout=subprocess.PIPE, stderr=subprocess.STDOUT, text=True)
                lines = [l for l in r.stdout.splitlines() if "bucket=" in l or l.startswith("HARNESS")]
                verdict = {0: "MISSED", 1: "caught", 2: "harness-error"}.get(r.returncode, "rc=%d" % r.returncode)
                print("%-28s %-4s %-13s %6.1fs %s" % (name, pid, verdict, time.time() - t0,
                                                      (lines[0][:170] if lines else "")), flush=True)
        finally:
            shutil.rmtree(tmp, ignore_errors=True)
            shutil.rmtree(out, ignore_errors=True)


if __name__ == "__main__":
    main(sys.argv[1:])
