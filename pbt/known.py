"""Recognisers for the open entries of known_findings.json.  Each takes (prop, case, bucket, detail) and
returns True only if the failure carries the finding's mark AND the finding's neutralising rewrite makes
the same check pass on that case (counterfactual), so a different violation is still reported."""


def c17_propertynames_node_instance(prop, case, bucket, detail):
    if bucket[0] != "index-clean-raises" or bucket[-1] != "node-holds-propertyNames-error":
        return False
    neutral = dict(case, drop_propertyNames_errors=True)
    res = prop.check(neutral)
    return not any(b[0] == "index-clean-raises" for b, _ in res.failures)
