"""Recognisers for the open entries of known_findings.json.  Each takes (prop, case, bucket, detail) and
returns True only if the failure carries the finding's mark AND the finding's neutralising rewrite makes
the same check pass on that case (counterfactual), so a different violation is still reported."""


def c17_propertynames_node_instance(prop, case, bucket, detail):
    if bucket[0] != "index-clean-raises" or bucket[-1] != "node-holds-propertyNames-error":
        return False
    neutral = dict(case, drop_propertyNames_errors=True)
    res = prop.check(neutral)
    return not any(b[0] == "index-clean-raises" for b, _ in res.failures)


import re as _re

_SCHEME = _re.compile(r"^([A-Za-z][A-Za-z0-9+.-]*):(//)?")


def _neutralise_schemes(v, found):
    """Rewrite every URI whose scheme urllib does not treat as hierarchical to an http URI."""
    def fix(s):
        m = _SCHEME.match(s)
        if m and m.group(1).lower() not in ("http", "https"):
            found.append(s)
            rest = s[m.end():]
            rest = rest.replace(":", "/").replace(",", "/")
            return "http://exotic-%s.test/%s" % (m.group(1).lower().replace("+", "-"), rest)
        return s
    if isinstance(v, str):
        return fix(v)
    if isinstance(v, list):
        return [_neutralise_schemes(e, found) for e in v]
    if isinstance(v, dict):
        out = {}
        for k, e in v.items():
            if k in ("instances", "classes"):
                out[k] = e
            else:
                out[fix(k) if _SCHEME.match(k) else k] = _neutralise_schemes(e, found)
        return out
    return v


def exotic_scheme(prop, case, bucket, detail):
    """Base URIs whose scheme urllib.parse.urljoin does not treat as hierarchical (urn:, tag:, unknown
    schemes): relative and fragment-only references are not joined against them."""
    found = []
    neutral = _neutralise_schemes(case, found)
    if not found:
        return False
    res = prop.check(neutral)
    return not res.failures


def _strip_sibling_ids(v, found, idkws=("id", "$id")):
    if isinstance(v, list):
        return [_strip_sibling_ids(e, found) for e in v]
    if isinstance(v, dict):
        out = {}
        for k, e in v.items():
            if k in idkws and "$ref" in v and isinstance(v.get("$ref"), str) and isinstance(e, str):
                found.append(e)
                continue
            out[k] = _strip_sibling_ids(e, found) if k not in ("instances", "classes") else e
        return out
    return v


def id_sibling_of_ref(prop, case, bucket, detail):
    """An id / $id written next to $ref is used as the base for that very reference (the drafts say
    siblings of $ref are ignored).  Neutralising rewrite: drop the sibling id."""
    found = []
    neutral = _strip_sibling_ids(case, found)
    if not found:
        return False
    res = prop.check(neutral)
    return not res.failures



def neutralise_exotic_scheme(case):
    found = []
    return _neutralise_schemes(case, found), bool(found)


def neutralise_id_sibling(case):
    found = []
    return _strip_sibling_ids(case, found), bool(found)
