"""Cut the code under test off from the network, countably.

`jsonschema.validators.urlopen` is replaced and a stub `requests` module is put
into sys.modules; both record their calls and raise OSError, so no case can
block on DNS and retrieval attempts are observable (C15)."""
import sys
import types

CALLS = []


class NetworkDown(OSError):
    pass


def _urlopen(uri, *a, **k):
    CALLS.append(("urlopen", uri))
    raise NetworkDown("network is stubbed out: %s" % (uri,))


def _get(uri, *a, **k):
    CALLS.append(("requests.get", uri))
    raise NetworkDown("network is stubbed out: %s" % (uri,))


def install():
    import jsonschema.validators as v
    v.urlopen = _urlopen
    mod = types.ModuleType("requests")
    mod.get = _get
    sys.modules["requests"] = mod


def reset():
    del CALLS[:]
