"""Cut the code under test off from the network, countably.

`jsonschema.validators.urlopen` is replaced and a stub `requests` module is put
into sys.modules; both record their calls and raise OSError, so no case can
block on DNS and retrieval attempts are observable (C15)."""
import sys
import types

CALLS = []


class NetworkDown(OSError):
    pass


def _urlopen(uri, *a, **k):
    CALLS.append(("urlopen", uri))
    if isinstance(uri, str) and uri.startswith("file:"):
        return _REAL[0](uri, *a, **k)       # local files only (CLI --base-uri scenarios)
    raise NetworkDown("network is stubbed out: %s" % (uri,))


def _get(uri, *a, **k):
    CALLS.append(("requests.get", uri))
    raise NetworkDown("network is stubbed out: %s" % (uri,))


_REAL = []


def install():
    import jsonschema.validators as v
    if not _REAL:
        from urllib.request import urlopen
        _REAL.append(urlopen)
    v.urlopen = _urlopen
    mod = types.ModuleType("requests")
    mod.get = _get
    sys.modules["requests"] = mod


def reset():
    del CALLS[:]
