"""Structural delta-debugger for JSON cases: greedily applies size-reducing
rewrites (delete member / element, hoist a child, replace by a simpler value,
shorten strings, shrink numbers) while the predicate keeps holding."""
import copy
import json
import time


def _paths(v, pre=()):
    yield pre
    if isinstance(v, dict):
        for k in list(v):
            for p in _paths(v[k], pre + (k,)):
                yield p
    elif isinstance(v, list):
        for i in range(len(v)):
            for p in _paths(v[i], pre + (i,)):
                yield p


def _get(v, path):
    for p in path:
        v = v[p]
    return v


def _set(root, path, val):
    if not path:
        return val
    root = copy.deepcopy(root)
    cur = root
    for p in path[:-1]:
        cur = cur[p]
    cur[path[-1]] = val
    return root


def _del(root, path):
    root = copy.deepcopy(root)
    cur = root
    for p in path[:-1]:
        cur = cur[p]
    del cur[path[-1]]
    return root


def _size(v):
    return len(json.dumps(v))


def _candidates(root):
    paths = sorted(_paths(root), key=lambda p: (len(p), str(p)))
    # deletions first, biggest subtrees first
    dels = [p for p in paths if p]
    dels.sort(key=lambda p: -_size(_get(root, p)))
    for p in dels:
        parent = _get(root, p[:-1])
        if isinstance(parent, (dict, list)):
            yield _del(root, p)
    for p in paths:
        node = _get(root, p)
        if isinstance(node, dict):
            for k in node:
                if isinstance(node[k], (dict, list)) and p:
                    yield _set(root, p, node[k])
        elif isinstance(node, list):
            for e in node:
                if isinstance(e, (dict, list)) and p:
                    yield _set(root, p, e)
    for p in paths:
        if not p:
            continue
        node = _get(root, p)
        if isinstance(node, (dict, list)) and node:
            yield _set(root, p, type(node)())
        elif isinstance(node, str) and node:
            yield _set(root, p, "")
            if len(node) > 1:
                yield _set(root, p, node[:len(node) // 2])
                yield _set(root, p, node[1:])
                yield _set(root, p, node[:-1])
        elif isinstance(node, bool):
            pass
        elif isinstance(node, int) and node not in (0, 1):
            yield _set(root, p, 0)
            yield _set(root, p, 1)
            yield _set(root, p, node // 2)
            yield _set(root, p, -node) if node < 0 else None
        elif isinstance(node, float) and node not in (0.0, 1.0):
            yield _set(root, p, 0)
            yield _set(root, p, 1)
            if node == int(node) and abs(node) < 2 ** 53:
                yield _set(root, p, int(node))


def minimise(case, pred, budget=1500, seconds=40):
    best = case
    t0 = time.time()
    used = 0
    improved = True
    while improved and used < budget and time.time() - t0 < seconds:
        improved = False
        cur_size = _size(best)
        for cand in _candidates(best):
            if cand is None:
                continue
            if used >= budget or time.time() - t0 > seconds:
                break
            if _size(cand) >= cur_size and cand == best:
                continue
            used += 1
            ok = False
            try:
                ok = pred(cand)
            except Exception:
                ok = False
            if ok and _size(cand) <= cur_size and cand != best:
                best = cand
                improved = True
                break
    return best
