"""C05 — every violated keyword is reported, independently of its sibling keywords.
(a) metamorphic: errors(S) == multiset-union over keywords k of errors(S restricted to k + consulted siblings);
(b) reference model: per keyword, one error per violation / the set of failing child locations equals O-SPEC's."""
import collections

from hypothesis import strategies as st

from .. import impl
from ..gen import instances as GI, schemas as GS, walk
from ..harness import Prop, Result
from ..oracle import spec


@st.composite
def cases(draw):
    d = draw(st.sampled_from(impl.DRAFTS))
    s = draw(GS.schema_object(d, GS.schemas(d, 6)))
    if draw(st.integers(0, 5)) == 0:
        s = GS.widen(s, draw(st.integers(0, 1000)), d)      # one keyword far beyond the sizes drawn otherwise
    xs = draw(GI.instances_for(s, 3))
    return {"draft": d, "schema": s, "instances": xs, "probes": 24, "alias": draw(st.integers(0, 5)) == 0}


def attributed(e):
    sp = list(e.schema_path)
    k = sp[0] if sp else None
    return "if" if k in ("then", "else") else k


def restricted(d, s, k):
    table = impl.CLS[d].VALIDATORS
    out = {}
    keep = set([k]) | set(spec.siblings(d, k))
    for name, v in s.items():           # same member order as the original
        if name in keep or name not in table:
            out[name] = v
    return out


def child_locations(d, k, s, errs):
    """What the implementation's errors of keyword k say about which children / names are violated."""
    out = []
    for e in errs:
        sp, p = list(e.schema_path), list(e.path)
        if k in ("items", "additionalItems"):
            out.append(p[0] if p else True)
        elif k == "properties":
            if d == 3 and e.validator == "required" and sp[-1:] == ["required"] and len(sp) == 3:
                out.append(("required", sp[1]))
            else:
                out.append(p[0] if p else None)
        elif k == "patternProperties":
            out.append((sp[1], p[0]) if len(sp) > 1 and p else None)
        elif k == "additionalProperties":
            out.append(p[0] if p else True)
        elif k == "propertyNames":
            out.append(("name", impl.cj(e.instance)))
        elif k in ("allOf",):
            out.append(sp[1] if len(sp) > 1 else None)
        elif k == "extends":
            out.append(sp[1] if isinstance(s.get("extends"), list) and len(sp) > 1 else None)
        elif k == "dependencies":
            if len(sp) > 1:
                out.append((sp[1], None))
            else:
                out.append(("array-form", e.message))
        else:
            out.append(True)
    return out


COUNTED = ("required",)
LOCATED = ("items", "additionalItems", "properties", "patternProperties", "additionalProperties", "propertyNames",
           "allOf", "extends")


class C05(Prop):
    ID = "C05"
    QUICK = 1100
    THOROUGH = 14000
    RULE = ("case = (draft, schema object with 1-5 interaction-biased keywords, 3 drawn + <= 24 schema-derived "
            "instances).  (a) the multiset of error keys (keyword, message, path, schema path, keyword value, context "
            "recursively) of S equals the multiset union over S's keywords k of the errors of S restricted to k plus "
            "the siblings k consults plus inert members, keeping errors attributed to k.  (b) per keyword the "
            "implementation's errors are compared with O-SPEC's violation list: one error per missing required name / "
            "unmet array dependency / matching disallow entry; the set of failing child locations for items, "
            "additionalItems, properties, patternProperties, additionalProperties, propertyNames, allOf, extends, "
            "schema dependencies; at least one error iff the keyword is violated otherwise.  One evaluation per "
            "(schema, instance).  Non-trivial: >= 2 root keywords fail or one keyword has >= 2 violations.")
    ASSUMPTIONS = ["multipleOf pairs outside the exact sub-domain are not judged in (b)", "O-SPEC self-test"]
    GATES = {"multi-keyword-failure": 300, "multi-violation-keyword": 300}
    MIN_NONTRIVIAL = 300

    def selftest(self):
        from ..oracle import selftest
        selftest.run()

    def strategy(self, tier):
        return cases()

    def check(self, case):
        res = Result()
        res.evals = 0
        d, s = case["draft"], case["schema"]
        if case.get("alias"):
            s = impl.alias_equal(s)
            res.labels.append("aliased")
        cls = impl.CLS[d]
        if not isinstance(s, dict) or walk.has_ref(d, s):
            res.excluded = "not-an-object-or-has-ref"
            return res
        try:
            cls.check_schema(s)
        except Exception:
            res.excluded = "schema-rejected"
            return res
        table = cls.VALIDATORS
        kws = [k for k in s if k in table]
        parts = {}
        for k in kws:
            parts[k] = restricted(d, s, k)
            try:
                cls.check_schema(parts[k])
            except Exception:
                res.excluded = "restriction-rejected"      # e.g. draft 3/4 exclusiveMinimum needs minimum
                return res
        xs = list(case["instances"]) + (GI.probes(s, case["probes"]) if case.get("probes") else [])
        for x in xs:
            res.evals += 1
            try:
                whole = list(cls(s).iter_errors(x))
                per = dict((k, [e for e in cls(parts[k]).iter_errors(x) if attributed(e) == k]) for k in kws)
            except Exception:
                res.excluded = "validation-crash(C03)"
                continue
            # ---- (a) independence
            a = collections.Counter(impl.errkey(e) for e in whole)
            b = collections.Counter()
            for k in kws:
                b.update(impl.errkey(e) for e in per[k])
            if a != b:
                only_a = list((a - b).elements())[:3]
                only_b = list((b - a).elements())[:3]
                kk = sorted(set(str(t[0]) for t in only_a + only_b))
                res.fail(("union-of-keywords", "whole-has-extra" if only_a else "whole-misses"),
                         "instance=%s keywords=%r\n only in errors(S): %r\n only in union of restrictions: %r" % (
                             impl.cj(x)[:200], kk, only_a, only_b))
            unatt = [e for e in whole if attributed(e) not in kws and e.validator is not None]
            if unatt:
                res.fail(("unattributable-error",), "%r" % [(list(e.schema_path)) for e in unatt][:3])
            # ---- (b) violations per keyword vs O-SPEC
            nfail = 0
            multi = False
            for k in kws:
                if k == "format":
                    continue
                ctx = spec.Ctx(d)
                try:
                    want = spec.keyword_violations(ctx, s, k, x)
                except (spec.Unsupported, RecursionError):
                    continue
                if ctx.inexact:
                    continue
                got = [e for e in whole if attributed(e) == k]
                if want:
                    nfail += 1
                if len(want) >= 2:
                    multi = True
                if bool(got) != bool(want):
                    res.fail(("keyword-reported-iff-violated", k, "silent" if want else "spurious"),
                             "instance=%s: O-SPEC violations %r, implementation errors %r" % (
                                 impl.cj(x)[:200], want[:4], [e.message[:60] for e in got][:4]))
                    continue
                if k == "required" or (d == 3 and k == "disallow"):
                    if len(got) != len(want):
                        res.fail(("one-error-per-violation", k), "instance=%s: %d violations %r, %d errors" % (
                            impl.cj(x)[:200], len(want), want[:5], len(got)))
                elif k == "dependencies":
                    locs = child_locations(d, k, s, got)
                    arr_got = sum(1 for l in locs if l[0] == "array-form")
                    arr_want = sum(1 for w in want if w[1] is not None)
                    sch_got = set(l[0] for l in locs if l[0] != "array-form")
                    sch_want = set(w[0] for w in want if w[1] is None)
                    if arr_got != arr_want or sch_got != sch_want:
                        res.fail(("one-error-per-violation", k), "instance=%s: want %r got %r" % (
                            impl.cj(x)[:200], want[:6], locs[:6]))
                elif k in LOCATED:
                    ai_bool = k in ("additionalItems", "additionalProperties") and isinstance(s[k], bool)
                    if ai_bool:
                        continue
                    locs = set(impl.cj(l) for l in child_locations(d, k, s, got))
                    if k == "propertyNames":
                        wl = set(impl.cj(["name", impl.cj(w)]) for w in want)
                        locs = set(impl.cj(list(l)) if False else l for l in locs)
                    else:
                        wl = set(impl.cj(list(w) if isinstance(w, tuple) else w) for w in want)
                    if locs != wl:
                        res.fail(("failing-child-locations", k), "instance=%s: O-SPEC %r, implementation %r" % (
                            impl.cj(x)[:200], sorted(wl)[:6], sorted(locs)[:6]))
            if nfail >= 2:
                res.labels.append("multi-keyword-failure")
                res.nontrivial = True
            if multi:
                res.labels.append("multi-violation-keyword")
                res.nontrivial = True
        return res

    def focus(self, case, bucket):
        xs = list(case["instances"]) + (GI.probes(case["schema"], case["probes"]) if case.get("probes") else [])
        for x in xs:
            yield dict(case, instances=[x], probes=0)


PROP = C05()
