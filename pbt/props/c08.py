"""C08 — enum, const and uniqueItems use JSON equality at every depth (reference model O-EQ + 3-way agreement)."""
import copy

from hypothesis import strategies as st

from .. import impl
from ..gen import values as V
from ..harness import Prop, Result
from ..oracle.equality import jeq

LEAVES = st.one_of(
    st.sampled_from([None, True, False, 0, 1, 0.0, 1.0, -0.0, 2, 2.0, -1, 1.5, "", "a", "b", "1", "true",
                     2 ** 53, 2 ** 53 + 1, float(2 ** 53), 10 ** 30, 1e30, "\U0001F600", "é"]),
    V.scalars)
VALUES = st.recursive(LEAVES, lambda c: st.one_of(st.lists(c, max_size=3),
                                                  st.dictionaries(V.small_keys, c, max_size=3)), max_leaves=6)


def _paths(v, pre=()):
    yield pre
    if isinstance(v, list):
        for i, e in enumerate(v):
            for p in _paths(e, pre + (i,)):
                yield p
    elif isinstance(v, dict):
        for k in v:
            for p in _paths(v[k], pre + (k,)):
                yield p


def _get(v, p):
    for t in p:
        v = v[t]
    return v


def _set(v, p, new):
    if not p:
        return new
    cur = v
    for t in p[:-1]:
        cur = cur[t]
    cur[p[-1]] = new
    return v


REWRITES = ["identity", "bool<->int", "int<->float", "key-order", "swap-elements", "neighbour-int", "change-char",
            "drop-member", "add-member", "negzero", "wrap", "replace", "another-kind"]


@st.composite
def rewrite(draw, v):
    """(kind, depth, value'): one rewrite of v at a drawn position."""
    v = copy.deepcopy(v)
    paths = list(_paths(v))
    p = draw(st.sampled_from(paths))
    node = _get(v, p)
    kind = draw(st.sampled_from(REWRITES))
    new = node
    if kind == "bool<->int":
        if isinstance(node, bool):
            new = draw(st.sampled_from([int(node), float(node)]))
        elif node in (0, 1) and isinstance(node, (int, float)):
            new = bool(node)
        else:
            kind = "identity"
    elif kind == "int<->float":
        if isinstance(node, bool):
            kind = "identity"
        elif isinstance(node, int) and abs(node) <= 2 ** 53:
            new = float(node)
        elif isinstance(node, int):
            try:
                new = float(node)
            except OverflowError:
                kind = "identity"
        elif isinstance(node, float) and node == int(node):
            new = int(node)
        else:
            kind = "identity"
    elif kind == "key-order":
        if isinstance(node, dict) and len(node) > 1:
            new = dict((k, node[k]) for k in reversed(list(node)))
        else:
            kind = "identity"
    elif kind == "swap-elements":
        if isinstance(node, list) and len(node) > 1:
            new = list(node)
            new[0], new[-1] = new[-1], new[0]
        else:
            kind = "identity"
    elif kind == "neighbour-int":
        if isinstance(node, int) and not isinstance(node, bool):
            new = node + draw(st.sampled_from([-1, 1]))
        elif isinstance(node, float) and abs(node) < 1e300:
            new = node + 1.0
        else:
            kind = "identity"
    elif kind == "change-char":
        if isinstance(node, str):
            new = node + "a" if draw(st.booleans()) or not node else node[:-1]
        else:
            kind = "identity"
    elif kind == "drop-member":
        if isinstance(node, (dict, list)) and node:
            new = copy.deepcopy(node)
            if isinstance(new, dict):
                del new[draw(st.sampled_from(list(new)))]
            else:
                del new[draw(st.integers(0, len(new) - 1))]
        else:
            kind = "identity"
    elif kind == "add-member":
        if isinstance(node, dict):
            new = dict(node)
            new["zz"] = None
        elif isinstance(node, list):
            new = list(node) + [draw(LEAVES)]
        else:
            kind = "identity"
    elif kind == "negzero":
        if node == 0 and not isinstance(node, bool) and isinstance(node, (int, float)):
            new = -0.0
        else:
            kind = "identity"
    elif kind == "another-kind":
        # a value of another JSON type that a Python programmer could mistake for the same thing: a string and the
        # array of its characters, an object and the array of its keys / of its [key, value] pairs, a number and its
        # decimal spelling as a string, null / false / 0 / "" / [] / {}
        if isinstance(node, str):
            new = draw(st.sampled_from([list(node), [node], dict((c, c) for c in node)]))
        elif isinstance(node, list) and all(isinstance(e, str) and len(e) == 1 for e in node):
            new = "".join(node)
        elif isinstance(node, dict):
            new = draw(st.sampled_from([list(node), [[k, v] for k, v in node.items()], sorted(node.items())]))
            new = [list(e) if isinstance(e, tuple) else e for e in new]
        elif isinstance(node, bool) or node is None:
            new = draw(st.sampled_from([None, False, 0, "", [], {}, "null", "false"]))
        elif isinstance(node, (int, float)):
            new = repr(node)
        else:
            new = {} if node == [] else [] if node == {} else node
            if new is node:
                kind = "identity"
    elif kind == "wrap":
        new = [copy.deepcopy(node)]
    elif kind == "replace":
        new = draw(LEAVES)
    return kind, len(p), _set(v, p, new)


def uniq_path(arr):
    try:
        set(arr)
        return "hash"
    except TypeError:
        pass
    try:
        sorted(arr)
        return "sort"
    except TypeError:
        return "brute"


@st.composite
def cases(draw):
    d = draw(st.sampled_from(impl.DRAFTS))
    c = draw(VALUES)
    x = c
    kinds = []
    depth = 0
    for _ in range(draw(st.integers(0, 3))):
        k, dp, x = draw(rewrite(x))
        kinds.append(k)
        depth = max(depth, dp)
    x = copy.deepcopy(x)
    # array for uniqueItems: fillers of a chosen kind, the pair (c, x) placed at a drawn distance
    fk = draw(st.sampled_from(["scalars", "lists", "dicts", "mixed"]))
    fill = {"scalars": V.scalars, "lists": st.lists(V.plain_nums, max_size=2),
            "dicts": st.dictionaries(V.small_keys, V.plain_nums, max_size=2), "mixed": VALUES}[fk]
    fillers = draw(st.lists(fill, max_size=5))
    arr = [copy.deepcopy(f) for f in fillers]
    i = draw(st.integers(0, len(arr)))
    arr.insert(i, copy.deepcopy(c))
    j = draw(st.integers(0, len(arr)))
    arr.insert(j, copy.deepcopy(x))
    extra = draw(st.lists(VALUES, max_size=2))
    pos = draw(st.integers(0, len(extra)))
    # sizes and depths far beyond the rest: the pair buried under many levels, the array padded with many fillers
    bury = draw(st.sampled_from([0, 0, 0, 0, 70, 90]))
    pad = draw(st.sampled_from([0, 0, 0, 30, 45, 64]))
    return {"draft": d, "c": c, "x": x, "arr": arr, "enum_extra": extra, "enum_pos": pos,
            "rewrites": kinds, "depth": depth, "bury": bury, "pad": pad}


class C08(Prop):
    ID = "C08"
    QUICK = 3500
    THOROUGH = 40000
    RULE = ("case = (draft, value c, value x obtained from c by 0-3 rewrites at drawn depths: bool<->int, int<->float, "
            "key order, element swap, neighbouring integer, changed character, dropped/added member, -0.0, wrap, "
            "replace; an array containing c and x among 0-5 fillers of a drawn kind; an enum list containing c). "
            "const / enum / uniqueItems verdicts are compared with recursive JSON equality O-EQ and with each other. "
            "Non-trivial: at least one rewrite other than identity was applied; distinct by SHA-1 of the case.")
    ASSUMPTIONS = ["Python int/float comparison is exact (language guarantee)", "O-EQ is the JSON data-model equality"]
    GATES = {"equal": 500, "unequal": 500, "depth>=1": 500, "depth>=2": 100, "uniq:hash": 200, "uniq:sort": 50,
             "uniq:brute": 200, "rw:bool<->int": 200, "rw:int<->float": 100, "rw:key-order": 30, "buried-deep": 500, "long-array": 500}
    MIN_NONTRIVIAL = 1000

    def strategy(self, tier):
        return cases()

    def check(self, case):
        res = Result()
        d = case["draft"]
        cls = impl.CLS[d]
        c, x, arr = case["c"], case["x"], case["arr"]
        bury = case.get("bury") or 0
        if isinstance(bury, int) and 0 < bury <= 100:
            for i in range(bury):       # alternately inside an array and inside an object
                c, x = ([c], [x]) if i % 2 else ({"k": c}, {"k": x})
            res.labels.append("buried-deep")
        pad = case.get("pad") or 0
        if isinstance(pad, int) and 0 < pad <= 100:
            arr = list(arr) + [[i, "pad"] if i % 3 == 0 else {"pad": i} if i % 3 == 1 else 1000 + i for i in range(pad)]
            res.labels.append("long-array")
        eq = jeq(c, x)
        res.evals = 0

        def run(schema, inst, what):
            try:
                cls.check_schema(schema)
            except impl.exceptions.SchemaError:
                return None
            res.evals += 1
            try:
                return cls(copy.deepcopy(schema)).is_valid(copy.deepcopy(inst))
            except Exception as e:
                res.fail(("crash", what, impl.tname(e)), "%s raised %r" % (what, e))
                return None

        verdicts = {}
        if d >= 6:
            v = run({"const": c}, x, "const")
            if v is not None:
                verdicts["const"] = v
                if v != eq:
                    res.fail(("const", "accepts-unequal" if v else "rejects-equal"),
                             "const=%s instance=%s O-EQ=%r" % (impl.cj(c), impl.cj(x), eq))
        v = run({"enum": [c]}, x, "enum")
        if v is not None:
            verdicts["enum"] = v
            if v != eq:
                res.fail(("enum", "accepts-unequal" if v else "rejects-equal"),
                         "enum=[%s] instance=%s O-EQ=%r" % (impl.cj(c), impl.cj(x), eq))
        extra = list(case.get("enum_extra", []))
        en = extra[:case.get("enum_pos", 0)] + [c] + extra[case.get("enum_pos", 0):]
        v = run({"enum": en}, x, "enum-many")
        if v is not None:
            want = any(jeq(e, x) for e in en)
            if v != want:
                res.fail(("enum-many", "accepts-unequal" if v else "rejects-equal"),
                         "enum=%s instance=%s" % (impl.cj(en), impl.cj(x)))
        v = run({"uniqueItems": True}, [c, x], "uniqueItems-pair")
        if v is not None:
            verdicts["uniq"] = not v
            if (not v) != eq:
                res.fail(("uniqueItems-pair", "accepts-duplicate" if v else "rejects-distinct"),
                         "array=%s O-EQ=%r" % (impl.cj([c, x]), eq))
        if len(set(verdicts.values())) > 1:
            res.fail(("three-way-disagreement",), "%r on c=%s x=%s" % (verdicts, impl.cj(c), impl.cj(x)))
        v = run({"uniqueItems": True}, arr, "uniqueItems-array")
        if v is not None:
            dup = any(jeq(arr[i], arr[j]) for i in range(len(arr)) for j in range(i))
            if v == dup:
                res.fail(("uniqueItems-array", "accepts-duplicate" if v else "rejects-distinct", uniq_path(arr)),
                         "array=%s" % impl.cj(arr))
        # one validator object, one long list object edited in place between two calls (length unchanged): each call
        # looks at the list as it is now
        if len(arr) >= 2:
            try:
                vu = cls({"uniqueItems": True})
                live = copy.deepcopy(arr)
                first = vu.is_valid(live)
                saved = live[-1]
                live[-1] = copy.deepcopy(live[0])           # now certainly holds a duplicate
                second = vu.is_valid(live)
                live[-1] = saved
                third = vu.is_valid(live)
                res.evals += 3
                if second is not False or third != first:
                    res.fail(("uniqueItems-array", "edited-in-place"), "same validator, same list object: before %r, with last := "
                             "first %r (must be False), restored %r (must equal the first answer); array=%s" % (
                                 first, second, third, impl.cj(arr)[:300]))
            except Exception as e:
                res.fail(("crash", "edited-in-place", impl.tname(e)), repr(e))
        # the same values loaded with object_pairs_hook=OrderedDict (a documented way to load JSON): member order
        # still must not matter
        import collections

        def od(v):
            if isinstance(v, dict):
                return collections.OrderedDict((k, od(e)) for k, e in v.items())
            if isinstance(v, list):
                return [od(e) for e in v]
            return v
        if any(isinstance(v, dict) for v in (c, x)) or "key-order" in case.get("rewrites", []):
            try:
                ov = cls({"enum": [od(c)]}).is_valid(od(x))
                uv = cls({"uniqueItems": True}).is_valid([od(c), od(x)])
            except Exception as e:
                res.fail(("crash", "ordered-dict", impl.tname(e)), repr(e))
                ov = uv = None
            res.labels.append("ordered-dict")
            if ov is not None and (ov != eq or uv == eq):
                res.fail(("ordered-dict", "enum" if ov != eq else "uniqueItems"),
                         "c=%s x=%s as OrderedDicts: enum accepts=%r uniqueItems accepts=%r, O-EQ=%r" % (
                             impl.cj(c), impl.cj(x), ov, uv, eq))
        kinds = [k for k in case.get("rewrites", []) if k != "identity"]
        res.labels.append("equal" if eq else "unequal")
        for k in set(kinds):
            res.labels.append("rw:" + k)
        dp = case.get("depth", 0)
        if kinds and dp >= 1:
            res.labels.append("depth>=1")
        if kinds and dp >= 2:
            res.labels.append("depth>=2")
        res.labels.append("uniq:" + uniq_path(arr))
        res.labels.append("d%d" % d)
        res.nontrivial = bool(kinds)
        return res


PROP = C08()
