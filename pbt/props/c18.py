"""C18 — validators that share no resolver are independent under any interleaving
(schedule enumeration / generation over next() steps of colliding validators, plus a thread stress part)."""
import copy
import itertools
import sys
import threading

from hypothesis import strategies as st

from .. import impl
from ..gen import worlds as GW
from ..harness import Prop, Result
from ..oracle import spec


@st.composite
def cases(draw):
    w = draw(GW.worlds(ninst=3))
    w["kind"] = "collision"
    w["nvalidators"] = draw(st.integers(2, 3))
    w["schedule"] = draw(st.lists(st.integers(0, 2), min_size=4, max_size=24))
    w["threads"] = draw(st.integers(0, 11)) == 0
    # how the validators come to exist: each with its own explicit resolver (default), all over the very same
    # schema OBJECT with the default resolver, or later ones seeded with the first one's store
    w["construction"] = draw(st.sampled_from(["own-resolver", "own-resolver", "same-schema-object", "seeded-from-first-store",
                                             "equal-schemas-different-stores", "shared-reference-objects",
                                             "first-cannot-retrieve"]))
    # make errors plentiful: an extra always-failing-somewhere property with a format and a pattern
    w["checkers"] = draw(st.sampled_from(["plain", "plain", "subclass", "mixed"]))
    return w


def variant(case, k):
    """Same shape, same base URI, same reference strings, same remote URLs -- different definitions behind them."""
    c = copy.deepcopy(case)
    L = GW.LEAVES

    def rot(s):
        if isinstance(s, dict):
            for i, lf in enumerate(L):
                if s == lf:
                    return copy.deepcopy(L[(i + 3 * k) % len(L)])
            return dict((kk, rot(v)) for kk, v in s.items())
        if isinstance(s, list):
            return [rot(e) for e in s]
        return s
    if k:
        c["root"] = rot(c["root"])
        c["docs"] = dict((u, rot(d)) for u, d in c["docs"].items())
    root = c["root"]
    props = root.setdefault("properties", {}) if isinstance(root.get("properties", {}), dict) else None
    if props is not None and "vf" not in props:
        props["vf"] = {"format": "vf", "pattern": "^a"}
    if props is not None and "patternProperties" not in root:
        # the same two regular expressions in every variant, in another member order and with other subschemas
        pp = [("^v", {"type": "string"}), ("x$", {"minimum": 7})]      # "vq": "s" / "wx": 9 satisfy one arrangement only
        root["patternProperties"] = dict(pp if k % 2 == 0 else [(pp[1][0], pp[0][1]), (pp[0][0], pp[1][1])])
    if props is not None and "en" not in props:
        # a long list of scalars that Python's == / hash cannot tell from its twin in the next variant (1 / true,
        # 0 / false, 2 / 2.0): as JSON they are different lists
        long_enum = [[1, 0, "a", "b", "c", 2, None, 10, 11, 12], [True, False, "a", "b", "c", 2.0, None, 10, 11, 12]]
        props["en"] = {"enum": long_enum[k % 2]}
    return c


RULES = [lambda x: not isinstance(x, str) or len(x) % 2 == 0, lambda x: not isinstance(x, str) or x.startswith("a"),
         lambda x: False]


_SUB = []


CHECKER_STYLE = ["mixed"]       # set per case in check(): "plain" = every validator FormatChecker(formats=()), "subclass" =
                                # all but the first a user subclass with its own registry, "mixed" = only the second


def checker_for(k):
    style = CHECKER_STYLE[0]
    if (style == "subclass" and k >= 1) or (style == "mixed" and k == 1):
        # a user's subclass with a registry of its own: its instances are still independent objects
        if not _SUB:
            _SUB.append(type("OwnRegistryChecker", (impl.jsonschema.FormatChecker,), {"checkers": {}}))
        fc = _SUB[0]()
    else:
        fc = impl.jsonschema.FormatChecker(formats=())
    fc.checks("vf")(RULES[k % 3])
    return fc


def build(case, k, shared=None):
    """shared: dict carried through one build round (the shared schema object / the first validator)."""
    how = case.get("construction", "own-resolver")
    if how == "same-schema-object" and shared is not None:
        # validators over the identical schema object, each asking for the default resolver
        if "root" not in shared:
            shared["root"] = variant(case, 0)["root"]
        cls = impl.CLS[case["draft"]]
        return cls(shared["root"], format_checker=checker_for(0))
    c = variant(case, k)
    if how == "equal-schemas-different-stores":
        # same root schema (equal, not identical), no handlers at all, every document in the store -- only the
        # contents of the stores differ between the validators
        c = dict(c, root=copy.deepcopy(variant(case, 0)["root"]), via=dict((u, "store") for u in c["docs"]))
        cls = impl.CLS[c["draft"]]
        store = dict((u, copy.deepcopy(dd)) for u, dd in c["docs"].items())
        resolver = impl.validators.RefResolver.from_schema(c["root"], id_of=cls.ID_OF, store=store)
        v = cls(c["root"], resolver=resolver, format_checker=checker_for(k))
        return v
    if how == "shared-reference-objects" and shared is not None:
        # schemas assembled from shared parts: every {"$ref": ...} object of the first validator's schema IS (the same
        # Python object) the one at the same place in the others' schemas -- while the definitions they name differ
        cls = impl.CLS[c["draft"]]
        root = copy.deepcopy(c["root"])
        if "root0" not in shared:
            shared["root0"] = root
        else:
            def share(a, b):
                if isinstance(a, dict) and isinstance(b, dict):
                    if "$ref" in b and a == b:
                        return a
                    for kk in list(b):
                        if kk in a:
                            b[kk] = share(a[kk], b[kk])
                elif isinstance(a, list) and isinstance(b, list):
                    for i in range(min(len(a), len(b))):
                        b[i] = share(a[i], b[i])
                return b
            root = share(shared["root0"], root)
        store = dict((u + ("#" if c["via"].get(u) == "store#" else ""), copy.deepcopy(dd)) for u, dd in c["docs"].items()
                     if c["via"].get(u) in ("store", "store#"))
        h = GW.Handler(c)
        resolver = impl.validators.RefResolver.from_schema(root, id_of=cls.ID_OF, store=store, handlers={"http": h, "https": h})
        return cls(root, resolver=resolver, format_checker=checker_for(k))
    if how == "seeded-from-first-store" and shared is not None and "first" in shared:
        # the documented way to pre-load documents: pass a mapping as `store` -- here the first resolver's
        extra = dict((u, copy.deepcopy(dd)) for u, dd in c["docs"].items() if c["via"].get(u) in ("store", "store#"))
        cls = impl.CLS[c["draft"]]
        root = copy.deepcopy(c["root"])
        resolver = impl.validators.RefResolver.from_schema(root, id_of=cls.ID_OF, store=shared["first"].resolver.store,
                                                           handlers={"http": GW.Handler(c)})
        for u, dd in extra.items():
            resolver.store[u] = dd
        v = cls(root, resolver=resolver)
    else:
        v = GW.build_validator(c)
    v.format_checker = checker_for(k)
    if shared is not None and "first" not in shared:
        shared["first"] = v
    return v


def instance_for(case, k):
    xs = case["instances"]
    x = copy.deepcopy(xs[k % len(xs)])
    if isinstance(x, dict):
        # the SAME string goes through every validator's own "vf" function (they disagree about it)
        x.setdefault("en", [1, True, 0, False][k % 4])     # in one variant's list, not in the other's
        x.setdefault("vq", "s")     # meets only the first expression
        x.setdefault("wx", 9)       # meets only the second
        x.setdefault("vf", ["ab", "b", "abcd", "abc"][len(case["instances"][0]) % 4 if isinstance(
            case["instances"][0], (list, dict, str)) else 0])
    return x


def solo(case, k):
    try:
        if case.get("construction") == "same-schema-object":
            v = impl.CLS[case["draft"]](variant(case, 0)["root"], format_checker=checker_for(0))
        else:
            v = build(case, k)
        return [impl.errkey(e, instance=True) for e in v.iter_errors(instance_for(case, k))], None
    except impl.exceptions.RefResolutionError:
        return None, "RefResolutionError"


class C18(Prop):
    ID = "C18"
    QUICK = 350
    THOROUGH = 6000
    RULE = ("case = reference world + 2-3 validator objects built over VARIANTS of it that collide on every key a "
            "shared cache could use (same base URI, identical $ref strings designating different definitions, same "
            "remote URLs served by different stores / handlers, same patterns, the same format name bound to different "
            "functions; nested ids so that iterators suspend with scopes pushed) + a schedule (which iterator advances "
            "next).  If all iterators together yield <= 7 errors every interleaving is enumerated, otherwise the drawn "
            "schedule and its reverse are run.  Each iterator's sequence of error keys must equal its solo sequence.  "
            "One evaluation per schedule.  In 1 of 12 cases each validator also validates its instance 40 times in "
            "its own thread (switch interval 1e-6) and every result must equal the solo result.  Non-trivial: a "
            "schedule with >= 2 switches while some iterator is suspended inside a pushed scope.")
    ASSUMPTIONS = ["generator interleavings are owned by the harness; thread schedules are only provoked "
                   "(sys.setswitchinterval), not enumerated"]
    GATES = {"suspended-in-scope": 100, "exhaustive-interleavings": 100, "threads": 20,
             "construction:same-schema-object": 50, "construction:seeded-from-first-store": 50,
             "construction:equal-schemas-different-stores": 50, "construction:shared-reference-objects": 50, "construction:first-cannot-retrieve": 50}
    MIN_NONTRIVIAL = 100

    def strategy(self, tier):
        return cases()

    def check(self, case):
        res = Result()
        res.evals = 0
        CHECKER_STYLE[0] = case.get("checkers") if case.get("checkers") in ("plain", "subclass", "mixed") else "mixed"
        ok, why = GW.wellformed(case)
        if not ok:
            res.excluded = why
            return res
        kf = GW.known_finding_class(case)
        if kf:
            res.excluded = kf
            return res
        try:
            n = int(case.get("nvalidators", 2))
            sched = [int(i) for i in case.get("schedule", [])]
            assert 2 <= n <= 3
        except Exception:
            res.excluded = "malformed"
            return res
        solos = []
        for k in range(n):
            try:
                s, exc = solo(case, k)
            except RecursionError:
                res.excluded = "non-terminating"
                return res
            except Exception as e:
                res.excluded = "solo-raises:" + impl.tname(e)
                return res
            if exc:
                res.excluded = "solo-unresolvable"
                return res
            solos.append(s)
            # the "alone" run itself must be right: a cache shared between validator objects (module or class
            # level) also corrupts sequential use, where interleaved == alone would hide it.  Reference: O-SPEC.
            same = case.get("construction") == "same-schema-object"
            vc = variant(case, 0 if same else k)
            if same:
                vc = dict(vc, docs={}, via={})        # the default resolver knows no external documents
            if case.get("construction") == "equal-schemas-different-stores":
                vc = dict(vc, root=variant(case, 0)["root"], via=dict((u, "store") for u in vc["docs"]))
            ctx = spec.Ctx(case["draft"], resolver=GW.oracle_resolver(vc), fmt=lambda name, x, _k=(0 if same else k): (
                name != "vf" or bool(RULES[_k % 3](x))))        # the rule itself, not a FormatChecker object
            try:
                want = spec.valid(ctx, vc["root"], instance_for(case, k), GW.root_uri(vc))
            except (spec.Unsupported, spec.Unresolvable, RecursionError):
                want = None
            if want is not None and not ctx.inexact and want != (not s):
                kfn = __import__("pbt.harness", fromlist=["x"])
                res.fail(("alone-verdict-differs-from-reference", "impl-accepts" if not s else "impl-rejects"),
                         "validator %d of %d (variant worlds colliding on URIs): O-SPEC says %s, implementation %d "
                         "errors; refs met %r" % (k, n, "valid" if want else "invalid", len(s), ctx.ref_log[:5]))
                return res
            # ... keyword by keyword at the root, since instances here are built to fail in several places at once
            root = vc["root"]
            if want is not None and isinstance(root, dict) and "$ref" not in root:
                import json
                got_kw = set(json.loads(e[3])[0] for e in s if json.loads(e[3]))
                got_kw = set("if" if g in ("then", "else") else g for g in got_kw)     # reported under then / else
                for kname in list(root):
                    if kname not in spec.KW[case["draft"]]:
                        continue
                    ctx2 = spec.Ctx(case["draft"], resolver=GW.oracle_resolver(vc), fmt=ctx.fmt)
                    try:
                        viol = bool(spec.keyword_violations(ctx2, root, kname, instance_for(case, k), ""))
                    except (spec.Unsupported, spec.Unresolvable, RecursionError):
                        continue
                    if kname == "properties" and isinstance(root["properties"], dict) and not ctx2.inexact:
                        # ... and property by property (several of them are built to fail)
                        xk = instance_for(case, k)
                        bad_impl = set(json.loads(e[2])[0] for e in s if json.loads(e[3])[:1] == ["properties"] and json.loads(e[2]))
                        for pn, sub in root["properties"].items():
                            if not isinstance(xk, dict) or pn not in xk:
                                continue
                            ctx3 = spec.Ctx(case["draft"], resolver=GW.oracle_resolver(vc), fmt=ctx.fmt)
                            try:
                                pbad = not spec.valid(ctx3, sub, xk[pn], GW.root_uri(vc))
                            except (spec.Unsupported, spec.Unresolvable, RecursionError):
                                continue
                            if ctx3.inexact or pbad == (pn in bad_impl):
                                continue
                            res.fail(("alone-property-differs-from-reference", "impl-silent" if pbad else "impl-reports"),
                                     "validator %d of %d: property %r = %s under %s: O-SPEC says %s" % (
                                         k, n, pn, impl.cj(xk[pn])[:60], impl.cj(sub)[:120], "violated" if pbad else "satisfied"))
                            return res
                    if ctx2.inexact or viol == (kname in got_kw):
                        continue
                    res.fail(("alone-keyword-differs-from-reference", kname, "impl-silent" if viol else "impl-reports"),
                             "validator %d of %d: root keyword %r: O-SPEC says %s, implementation reports %r" % (
                                 k, n, kname, "violated" if viol else "satisfied", sorted(got_kw)))
                    return res
        res.labels.append("construction:" + str(case.get("construction", "own-resolver")))
        total = sum(len(s) + 1 for s in solos)
        if sum(len(s) for s in solos) == 0:
            res.excluded = "no-errors"
            return res
        schedules = []
        if total <= 9:
            seq = []
            for k, s in enumerate(solos):
                seq += [k] * (len(s) + 1)
            schedules = sorted(set(itertools.permutations(seq)))[:400]
            res.labels.append("exhaustive-interleavings")
        else:
            schedules = [sched, sched[::-1]]
        for sc in schedules:
            res.evals += 1
            self.run_schedule(res, case, n, list(sc), solos)
            if res.failures:
                break
        if case.get("threads") and not res.failures:
            self.run_threads(res, case, n, solos)
        return res

    def run_schedule(self, res, case, n, sc, solos):
        shared = {}
        if case.get("construction") == "first-cannot-retrieve":
            # somebody else's resolver, with no handler and no store entry for the world's documents, has tried to get
            # them and failed (the network is stubbed out): that is its problem alone
            lone = impl.validators.RefResolver("", {})
            for u in sorted(case["docs"]):
                try:
                    lone.resolve(u)
                except impl.exceptions.RefResolutionError:
                    pass
                except Exception:
                    pass
            from .. import netstub
            netstub.reset()
        vs = [build(case, k, shared) for k in range(n)]
        its = [vs[k].iter_errors(instance_for(case, k)) for k in range(n)]
        depth0 = [impl.stack_depth(v.resolver) for v in vs]
        scope0 = [v.resolver.resolution_scope for v in vs]
        got = [[] for _ in range(n)]
        done = [False] * n
        switches_in_scope = 0
        last = None
        import itertools as _it
        order = _it.chain(list(sc), _it.islice(_it.cycle(range(n)), 200000))       # round-robin until everybody is done
        for k in order:
            k = k % n
            if all(done):
                break
            if done[k]:
                continue
            if last is not None and last != k and any(
                    (impl.stack_depth(vs[j].resolver) > depth0[j] or vs[j].resolver.resolution_scope != scope0[j])
                    for j in range(n) if not done[j]):
                switches_in_scope += 1
            last = k
            try:
                e = next(its[k], None)
            except Exception as ex:
                res.fail(("interleaved-raises", impl.tname(ex)), "validator %d under schedule %r: %r (solo: %d errors)" % (
                    k, sc[:20], ex, len(solos[k])))
                return
            if e is None:
                done[k] = True
            else:
                got[k].append(impl.errkey(e, instance=True))
        for k in range(n):
            if got[k] != solos[k]:
                res.fail(("interleaving-changes-errors",),
                         "validator %d under schedule %r:\n interleaved: %r\n alone:       %r" % (
                             k, sc[:20], [g[:3] for g in got[k]][:4], [g[:3] for g in solos[k]][:4]))
                return
        if switches_in_scope >= 2:
            res.labels.append("suspended-in-scope")
            res.nontrivial = True

    def run_threads(self, res, case, n, solos):
        res.labels.append("threads")
        old = sys.getswitchinterval()
        sys.setswitchinterval(1e-6)
        bad = []
        try:
            shared = {}
            vs = [build(case, k, shared) for k in range(n)]
            for v in vs:
                h = getattr(v, "_verif_handler", None)
                if h is not None:
                    h.delay = 0.002

            def work(k):
                for _ in range(40):
                    try:
                        r = [impl.errkey(e, instance=True) for e in vs[k].iter_errors(instance_for(case, k))]
                    except Exception as ex:
                        bad.append((k, "raises %r" % (ex,)))
                        return
                    if r != solos[k]:
                        bad.append((k, "differs"))
                        return
            ts = [threading.Thread(target=work, args=(k,)) for k in range(n)]
            for t in ts:
                t.start()
            for t in ts:
                t.join()
        finally:
            sys.setswitchinterval(old)
        res.evals += 40 * n
        if bad:
            res.fail(("threads-change-errors",), "%r" % (bad[:3],))


PROP = C18()
