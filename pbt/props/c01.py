"""C01 — validity verdicts agree with the specification (differential vs O-SPEC)."""
import collections

from hypothesis import strategies as st

from .. import impl
from ..gen import instances as GI, schemas as GS, walk
from ..harness import Prop, Result
from ..oracle import spec

APPLICATORS = ("properties", "patternProperties", "additionalProperties", "items", "additionalItems", "contains",
               "propertyNames", "dependencies", "allOf", "anyOf", "oneOf", "not", "if", "extends", "type",
               "disallow")


@st.composite
def cases(draw, max_leaves=8, ninst=3):
    d = draw(st.sampled_from(impl.DRAFTS))
    s = draw(GS.root_schemas(d, max_leaves))
    xs = draw(GI.instances_for(s, ninst))
    return {"draft": d, "schema": s, "instances": xs, "probes": 30, "alias": draw(st.integers(0, 5)) == 0}


class C01(Prop):
    ID = "C01"
    QUICK = 1400
    THOROUGH = 16000
    RULE = ("case = (draft, reference-free well-meant schema from the interaction-biased grammar, 3 drawn schema-directed "
            "instances plus a deterministic schema-derived probe set of <= 36 instances: bounds and their neighbours, "
            "lengths +-1, key subsets, enum values and near-equal rewrites, per-position item variants); each (schema, instance) pair is one evaluation: is_valid and bool(iter_errors) are compared "
            "with the independent evaluator O-SPEC.  A pair is non-trivial when the schema is accepted by "
            "check_schema, at least one root keyword applies to the instance's JSON type and the schema has >= 2 "
            "keywords or an applicator with a non-empty subschema; distinct = SHA-1 of (draft, schema, instance).")
    ASSUMPTIONS = ["Python re.search on the generated regex subset is the ECMA 262 answer",
                   "multipleOf/divisibleBy pairs outside the C09 exact sub-domain are excluded (counted)",
                   "format is not judged here (C12/C13)",
                   "O-SPEC reproduces the official test-suite verdicts (self-test at start-up)"]
    GATES = {"invalid": 300, "valid": 300, "multi-keyword": 300}
    MIN_NONTRIVIAL = 500

    def selftest(self):
        from ..oracle import selftest
        selftest.run()

    def strategy(self, tier):
        return cases(8 if tier == "quick" else 10)

    def check(self, case):
        res = Result()
        d, s, xs = case["draft"], case["schema"], list(case["instances"])
        if case.get("probes"):
            xs += GI.probes(s, case["probes"])
        if case.get("alias"):
            pool = {}
            s, xs = impl.alias_equal(s, pool), [impl.alias_equal(x, pool) for x in xs]     # schema and instances share parts
            # and containers that hold the very same object twice: [x, x], {"a": x, "b": x}
            twice = [x for x in xs if isinstance(x, (dict, list)) and x][:6]
            xs += [[x, x] for x in twice] + [{"a": x, "b": x, "k": [x]} for x in twice[:3]]
            res.labels.append("aliased")
        cls = impl.CLS[d]
        res.evals = 0
        if walk.has_ref(d, s):
            res.excluded = "has-ref"
            return res
        try:
            cls.check_schema(s)
        except impl.exceptions.SchemaError:
            res.excluded = "rejected-by-check_schema"
            return res
        except Exception as e:
            res.excluded = "check_schema-crash:" + impl.tname(e)
            return res
        for x in xs:
            res.evals += 1
            ctx = spec.Ctx(d)
            try:
                failing = spec.first_failing(ctx, s, x)
            except spec.Unsupported as e:
                res.excluded = "unsupported:" + str(e)[:40]
                continue
            if ctx.inexact:
                res.excluded = "C09-outside-exact-domain"
                continue
            expected = not failing
            try:
                v = cls(s)
                got = v.is_valid(x)
                errs = list(cls(s).iter_errors(x))
            except (impl.exceptions.UnknownType, impl.exceptions.RefResolutionError) as e:
                res.excluded = "documented-exception:" + impl.tname(e)
                continue
            except RecursionError:
                res.excluded = "recursion-limit"
                continue
            except Exception as e:
                # the specification gives this pair a verdict (O-SPEC just computed it in its exact domain);
                # an exception is no verdict at all
                res.fail(("no-verdict", impl.tname(e), d, failing or "valid"),
                         "spec: %s; implementation raised %r; instance=%s" % (
                             "invalid (keyword %s)" % failing if failing else "valid", e, impl.cj(x)[:300]))
                continue
            if got != (not errs):
                res.fail(("is_valid-vs-iter_errors", d), "is_valid=%r errors=%d instance=%s" % (
                    got, len(errs), impl.cj(x)))
            if got != expected:
                if got:
                    res.fail(("verdict", "impl-accepts", d, failing),
                             "spec: invalid (keyword %s); implementation: valid; instance=%s" % (failing, impl.cj(x)))
                else:
                    res.fail(("verdict", "impl-rejects", d, errs[0].validator if errs else "?"),
                             "spec: valid; implementation: %s; instance=%s" % (
                                 errs[0].message[:200] if errs else "?", impl.cj(x)))
            res.labels.append("valid" if expected else "invalid")
            if isinstance(s, dict):
                app = 0
                for k in s:
                    if k in spec.KW[d] and k != "format" and spec.applicable(d, k, x):
                        app += 1
                        c2 = spec.Ctx(d)
                        try:
                            bad = spec.keyword_violations(c2, s, k, x)
                        except spec.Unsupported:
                            continue
                        res.labels.append("d%d:%s:%s" % (d, k, "fail" if bad else "pass"))
                nk = sum(1 for k in s if k in spec.KW[d])
                if nk >= 2:
                    res.labels.append("multi-keyword")
                if app and (nk >= 2 or any(k in APPLICATORS and s[k] not in ({}, [], True) for k in s)):
                    res.nontrivial = True
        if res.nontrivial:
            res.nt_key = case
        return res

    def focus(self, case, bucket):
        """Candidate reductions tried before structural shrinking: one instance, no probe set."""
        xs = list(case["instances"]) + (GI.probes(case["schema"], case["probes"]) if case.get("probes") else [])
        for x in xs:
            yield {"draft": case["draft"], "schema": case["schema"], "instances": [x], "probes": 0}

    def extra_stages(self, tier, seed, acc):
        """Exhaustive type matrix: every type name (and every pair) of every draft, at the root and below items /
        properties / additionalProperties, against every ordered pair of values from a pool in which each Python
        class appears with differently-typed members (1.0 / 1.5, 1 / True, 0 / False, -0.0)."""
        import itertools
        from ..harness import run_case
        pool = [None, True, False, 0, 1, 1.0, 1.5, -0.0, 2 ** 53, "", "a", [], [1], {}, {"a": 1}]
        n = 0
        for d in impl.DRAFTS:
            names = list(spec.D3_TYPES if d == 3 else spec.D4_TYPES)
            tys = names + [[a, b] for a, b in itertools.combinations(names, 2)]
            for t in tys:
                arrays = [[a, b] for a in pool for b in pool]
                objects = [{"a": a, "b": b} for a in pool for b in pool]
                for schema, xs in (({"items": {"type": t}}, arrays), ({"additionalProperties": {"type": t}}, objects),
                                   ({"type": t}, pool)):
                    if d == 3 and "any" in (t if isinstance(t, list) else [t]) and isinstance(t, list):
                        continue
                    run_case(self, {"draft": d, "schema": schema, "instances": xs, "probes": 0}, acc, keep_sample=False)
                    n += len(xs)
        acc.extra["type_matrix_evaluations"] = n

    def gate(self, acc, tier):
        miss = []
        if tier == "thorough":
            for d in impl.DRAFTS:
                for k in spec.KW[d]:
                    if k == "format":
                        continue
                    for o in ("pass", "fail"):
                        if not acc.labels.get("d%d:%s:%s" % (d, k, o)):
                            miss.append("d%d:%s:%s=0" % (d, k, o))
        return miss


PROP = C01()
