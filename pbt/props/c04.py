"""C04 — all entry points agree: is_valid, iter_errors, validate(), jsonschema.validate (differential between code paths)."""
import copy

from hypothesis import strategies as st

from .. import impl
from ..gen import instances as GI, schemas as GS, walk, worlds as GW
from ..harness import Prop, Result

SCHEMA_URIS = {3: "http://json-schema.org/draft-03/schema#", 4: "http://json-schema.org/draft-04/schema#",
               6: "http://json-schema.org/draft-06/schema#", 7: "http://json-schema.org/draft-07/schema#"}


@st.composite
def cases(draw):
    if draw(st.integers(0, 7)) == 0:
        w = draw(GW.worlds(ninst=4))
        w["kind"] = "world"
        return w
    d = draw(st.sampled_from(impl.DRAFTS))
    k = draw(st.integers(0, 9))
    if k < 5:
        s = draw(GS.root_schemas(d, 8))
        flavour = "well-meant"
    elif k < 8:
        s = draw(GS.liberal(d, 6))
        flavour = "liberal"
    elif k == 8:
        # anything at all offered as a schema: non-objects, booleans under drafts 3/4, ...
        from ..gen import values as V
        s = draw(st.one_of(V.values(6, wide=True), GS.ODD))
        flavour = "arbitrary"
    else:
        # an id keyword of the wrong JSON type (the metaschema says string)
        s = dict(draw(GS.schema_object(d, GS.schemas(d, 4))))
        s[draw(st.sampled_from(["id", "$id"]))] = draw(st.sampled_from([5, None, True, [], {}, ["http://x/"], 1.5]))
        flavour = "odd-id"
    via_dollar = draw(st.booleans())
    if via_dollar and isinstance(s, dict):
        s = dict(s)
        s["$schema"] = draw(st.sampled_from([SCHEMA_URIS[d], SCHEMA_URIS[d][:-1]]))
    elif isinstance(s, dict) and draw(st.integers(0, 3)) == 0:
        # the class is given explicitly; whatever the schema says about itself must not matter
        s = dict(s)
        s["$schema"] = draw(st.sampled_from(sorted(SCHEMA_URIS.values()) + ["http://example.com/unknown-meta#"]))
    fc = draw(st.sampled_from(["none", "none", "default", "draft"]))
    if fc != "none" and isinstance(s, dict) and draw(st.booleans()):
        s = dict(s)
        s["format"] = draw(st.sampled_from(["ipv4", "date", "regex", "email", "ipv6", "ip-address", "unknown"]))
    if fc != "none" and isinstance(s, dict) and draw(st.integers(0, 3)) == 0:
        # a pattern the regex engine cannot compile is still a string, which is all the metaschema asks for
        s = dict(s)
        s[draw(st.sampled_from(["pattern", "pattern", "patternProperties"]))] = draw(st.sampled_from(["(", "[a-", "*a"]))
        if "patternProperties" in s and isinstance(s["patternProperties"], str):
            s["patternProperties"] = {s["patternProperties"]: {}}
    xs = draw(GI.instances_for(s if isinstance(s, dict) else {}, 3))
    return {"draft": d, "schema": s, "instances": xs, "via_dollar": via_dollar, "format_checker": fc,
            "flavour": flavour, "probes": 10}


class Untouchable(object):
    """An instance whose every data-model method raises: proves validate() does not look at it."""

    class Touched(Exception):
        pass

    def _boom(self, *a, **k):
        raise Untouchable.Touched()

    __getitem__ = __iter__ = __len__ = __contains__ = __eq__ = __ne__ = __hash__ = __bool__ = _boom
    __lt__ = __le__ = __gt__ = __ge__ = __float__ = __int__ = __index__ = __str__ = __repr__ = _boom
    __truediv__ = __rtruediv__ = __mod__ = __rmod__ = __getattr__ = _boom


FIELDS = ("message", "validator", "validator_value", "path", "schema_path", "instance", "cause")


def full_key(e):
    return (e.message, str(e.validator), impl.cj(e.validator_value) if e.validator is not None else "",
            impl.cj(list(e.path)), impl.cj(list(e.schema_path)), impl.cj(e.instance),
            repr(type(e.cause)), tuple(sorted(full_key(c) for c in e.context)))


def descendants(errors):
    out = []
    stack = list(errors)
    while stack:
        e = stack.pop()
        out.append(e)
        stack.extend(e.context)
    return out


class C04(Prop):
    ID = "C04"
    QUICK = 900
    THOROUGH = 14000
    RULE = ("case = (draft, schema: 50% well-meant, 50% liberal and unfiltered so that check_schema fails on a share; "
            "class given explicitly or chosen through $schema (with / without trailing #); format checker none / "
            "FormatChecker() / the draft's; 3 drawn + 10 derived instances).  Relations: is_valid == no iter_errors; "
            "validate() raises iff invalid and raises exactly the first error of a fresh iter_errors (all fields, "
            "context recursively); jsonschema.validate raises SchemaError with the fields of the first metaschema "
            "error without touching the instance when check_schema fails, otherwise raises iff invalid an error that "
            "is a context-free descendant of the errors and equals best_match; every call repeated gives identical "
            "results.  Non-trivial: schema invalid, or >= 2 top-level errors, or an error with context.")
    ASSUMPTIONS = ["which error best_match picks is not asserted beyond 'context-free descendant' and agreement with "
                   "the harness's own best_match call (documented heuristic)"]
    GATES = {"world": 300, "schema-invalid": 200, "invalid+context": 200, "multi-error": 300, "class-from-$schema": 300,
             "with-checker": 300}
    MIN_NONTRIVIAL = 300

    def strategy(self, tier):
        return cases()

    def check_world(self, case):
        """Schemas with references and ids: the same relations on ONE validator object used for every instance in
        turn (an entry point that abandons its iterator must not change what the next call sees)."""
        res = Result()
        res.evals = 0
        ok, why = GW.wellformed(case)
        if not ok:
            res.excluded = why
            return res
        kf = GW.known_finding_class(case)
        if kf:
            res.excluded = kf
            return res
        res.labels.append("world")

        held = []       # a caller may keep the exceptions it caught (logging, re-raising later): they stay alive

        def outcome(f):
            try:
                return ("ok", f())
            except impl.exceptions.ValidationError as e:
                held.append(e)
                return ("ValidationError", full_key(e))
            except impl.exceptions.RefResolutionError as e:
                held.append(e)
                return ("RefResolutionError",)
        try:
            v = GW.build_validator(case)
        except Exception:
            res.excluded = "cannot-build"
            return res
        for x in GW.instances_of(case):
            res.evals += 1
            try:
                a = outcome(lambda: v.is_valid(copy.deepcopy(x)))
                b = outcome(lambda: [full_key(e) for e in v.iter_errors(copy.deepcopy(x))])
                c = outcome(lambda: v.validate(copy.deepcopy(x)))
                a2 = outcome(lambda: v.is_valid(copy.deepcopy(x)))
                f = outcome(lambda: [full_key(e) for e in GW.build_validator(case).iter_errors(copy.deepcopy(x))])
            except RecursionError:
                res.excluded = "non-terminating"
                return res
            except Exception as e:
                res.fail(("world", "raises", impl.tname(e)), "instance=%s: %r" % (impl.cj(x)[:150], e))
                return res
            detail = "instance=%s: is_valid=%r iter_errors=%r validate=%r is_valid-again=%r fresh-validator=%r" % (
                impl.cj(x)[:150], a, str(b)[:120], str(c)[:120], a2, str(f)[:120])
            if b != f or a != a2:
                res.fail(("world", "repeat-differs"), detail)
            elif b[0] == "ok":
                if a != ("ok", not b[1]):
                    res.fail(("world", "is_valid-vs-iter_errors"), detail)
                if b[1] and c != ("ValidationError", b[1][0]):
                    res.fail(("world", "validate-not-first-error"), detail)
                if not b[1] and c != ("ok", None):
                    res.fail(("world", "validate-raises-on-valid"), detail)
            elif a[0] == "ok" and a[1] is True:
                # iter_errors cannot resolve something: is_valid may stop before reaching it only by finding an error
                res.fail(("world", "is_valid-true-but-iter_errors-unresolvable"), detail)
            if b[0] == "ok" and len(b[1]) >= 2:
                res.nontrivial = True
        return res

    def check(self, case):
        if case.get("kind") == "world":
            return self.check_world(case)
        res = Result()
        res.evals = 0
        d, s = case["draft"], case["schema"]
        cls = impl.CLS[d]
        js = impl.jsonschema
        fc = {"none": None, "default": js.FormatChecker(), "draft": impl.DRAFT_CHECKERS[d]}.get(case.get("format_checker"))
        from .c03 import risky_ref, bad_regex
        if risky_ref(s):
            res.excluded = "has-ref"
            return res
        if bad_regex(s):
            res.labels.append("uncompilable-regex")     # entry points must still agree wherever it is not applied
        explicit = not (case.get("via_dollar") and isinstance(s, dict) and "$schema" in s)
        if explicit and isinstance(s, dict) and "$schema" in s:
            res.labels.append("explicit-class-with-foreign-$schema")
        if not explicit:
            sel = impl.validators.validator_for(s)
            if sel is not cls:
                res.excluded = "selection-differs(C20)"
                return res
            res.labels.append("class-from-$schema")
        if fc is not None:
            res.labels.append("with-checker")
        kw = {} if explicit is False else {"cls": cls}
        # ---- schema validity
        try:
            meta_errors = list(cls(cls.META_SCHEMA).iter_errors(s))
        except Exception as e:
            res.excluded = "metaschema-evaluation-raises(C11):" + impl.tname(e)
            return res
        try:
            cls.check_schema(s)
            schema_ok = True
        except impl.exceptions.SchemaError as e:
            schema_ok = False
            cs_err = e
        except impl.exceptions.ValidationError as e:
            res.fail(("check_schema-raises-ValidationError-not-SchemaError",), "schema=%s: %r" % (impl.cj(s)[:200], e))
            return res
        except Exception as e:
            res.excluded = "check_schema-raises(C11):" + impl.tname(e)
            return res
        if schema_ok != (not meta_errors):
            res.fail(("check_schema-vs-metaschema-errors",), "check_schema ok=%r, metaschema errors=%d" % (schema_ok, len(meta_errors)))
            return res
        if not schema_ok:
            res.labels.append("schema-invalid")
            res.nontrivial = True
            first = meta_errors[0]
            for which in ("untouchable", "plain"):
                res.evals += 1
                inst = Untouchable() if which == "untouchable" else (case["instances"] or [None])[0]
                try:
                    js.validate(inst, copy.deepcopy(s), format_checker=fc, **kw)
                    res.fail(("module-validate", "accepts-invalid-schema"), "schema=%s" % impl.cj(s)[:300])
                except impl.exceptions.SchemaError as e:
                    if full_key(e) != full_key(first) or full_key(e) != full_key(cs_err):
                        res.fail(("module-validate", "SchemaError-fields-differ"),
                                 "raised %r, first metaschema error %r" % (full_key(e)[:5], full_key(first)[:5]))
                    if e.parent is not None:
                        res.fail(("module-validate", "SchemaError-has-parent"), "")
                    if any(c.parent is not e for c in e.context):
                        res.fail(("module-validate", "SchemaError-context-not-reparented"), "")
                except Untouchable.Touched:
                    res.fail(("module-validate", "instance-touched-before-schema-check"), "schema=%s" % impl.cj(s)[:300])
                except Exception as e:
                    res.fail(("module-validate", "wrong-exception", impl.tname(e)), repr(e)[:300])
            return res
        # ---- instance relations
        xs = list(case["instances"]) + (GI.probes(s, case["probes"]) if case.get("probes") and isinstance(s, dict) else [])
        # "for one validator": the same validator object answers is_valid for every instance of the case in turn
        # (Python-equal values of different JSON types -- 1, True, 1.0 / 0, False -- come one after the other)
        xs = xs + [1, True, 1.0, 0, False, 0.0, "1", [1], [True]]
        try:
            vlong = cls(copy.deepcopy(s), format_checker=fc)
        except Exception:
            vlong = None
        for x in xs:
            if vlong is not None:
                try:
                    lv = vlong.is_valid(copy.deepcopy(x))
                    le = list(vlong.iter_errors(copy.deepcopy(x)))
                    if lv != (not le):
                        res.fail(("is_valid-vs-iter_errors", "same-validator-object"),
                                 "after earlier calls on the same validator: is_valid(%s)=%r but iter_errors yields %d "
                                 "errors" % (impl.cj(x)[:100], lv, len(le)))
                except Exception:
                    pass
            res.evals += 1
            try:
                errs1 = list(cls(copy.deepcopy(s), format_checker=fc).iter_errors(copy.deepcopy(x)))
                v = cls(copy.deepcopy(s), format_checker=fc)
                errs2 = list(v.iter_errors(copy.deepcopy(x)))
                valid1 = v.is_valid(copy.deepcopy(x))
                valid2 = v.is_valid(copy.deepcopy(x))
            except Exception as e:
                res.excluded = "validation-raises(C03):" + impl.tname(e)
                continue
            k1, k2 = [full_key(e) for e in errs1], [full_key(e) for e in errs2]
            if k1 != k2 or valid1 != valid2:
                res.fail(("repeat-differs",), "instance=%s" % impl.cj(x)[:200])
            if valid1 != (not errs1):
                res.fail(("is_valid-vs-iter_errors",), "is_valid=%r, %d errors; instance=%s" % (valid1, len(errs1), impl.cj(x)[:200]))
            # validate()
            try:
                cls(copy.deepcopy(s), format_checker=fc).validate(copy.deepcopy(x))
                raised = None
            except impl.exceptions.ValidationError as e:
                raised = e
            except Exception as e:
                res.fail(("validate", "wrong-exception", impl.tname(e)), repr(e)[:200])
                continue
            if (raised is None) != (not errs1):
                res.fail(("validate", "raises-iff-invalid"), "raised=%r errors=%d instance=%s" % (raised, len(errs1), impl.cj(x)[:200]))
            elif raised is not None and full_key(raised) != k1[0]:
                res.fail(("validate", "not-the-first-error"), "raised %r, first %r" % (full_key(raised)[:5], k1[0][:5]))
            # module-level validate()
            try:
                js.validate(copy.deepcopy(x), copy.deepcopy(s), format_checker=fc, **kw)
                mraised = None
            except impl.exceptions.SchemaError as e:
                res.fail(("module-validate", "SchemaError-on-valid-schema"), repr(e)[:200])
                continue
            except impl.exceptions.ValidationError as e:
                mraised = e
            except Exception as e:
                res.fail(("module-validate", "wrong-exception", impl.tname(e)), repr(e)[:200])
                continue
            if (mraised is None) != (not errs1):
                res.fail(("module-validate", "raises-iff-invalid"), "raised=%r errors=%d instance=%s" % (mraised, len(errs1), impl.cj(x)[:200]))
            elif mraised is not None:
                desc = descendants(errs1)
                mk = (mraised.message, str(mraised.validator), impl.cj(list(mraised.absolute_path)),
                      impl.cj(list(mraised.absolute_schema_path)))
                dk = [(e.message, str(e.validator), impl.cj(list(e.absolute_path)), impl.cj(list(e.absolute_schema_path)))
                      for e in desc]
                if mk not in dk:
                    res.fail(("module-validate", "not-a-descendant-of-the-errors"), "%r" % (mk,))
                if mraised.context:
                    res.fail(("module-validate", "raised-error-has-context"), "%r" % (mk,))
                bm = impl.exceptions.best_match(iter(errs2))
                bk = (bm.message, str(bm.validator), impl.cj(list(bm.absolute_path)), impl.cj(list(bm.absolute_schema_path)))
                if bk != mk:
                    res.fail(("module-validate", "differs-from-best_match"), "raised %r best_match %r" % (mk, bk))
            if len(errs1) >= 2:
                res.labels.append("multi-error")
                res.nontrivial = True
            if any(e.context for e in errs1):
                res.labels.append("invalid+context")
                res.nontrivial = True
        # ---- the caller edits the schema object between two calls: each call judges the schema as it is NOW
        if isinstance(s, dict) and xs:
            sobj = copy.deepcopy(s)
            x0 = copy.deepcopy(xs[0])
            where = sobj
            for k in ("properties", "definitions"):
                if isinstance(sobj.get(k), dict) and sobj[k] and case["instances"] and isinstance(case["instances"][0], dict):
                    first = sorted(sobj[k])[0]
                    if isinstance(sobj[k][first], dict):
                        where = sobj[k][first]          # a nested edit
                        break

            def mv():
                try:
                    js.validate(copy.deepcopy(x0), sobj, format_checker=fc, **kw)
                    return "ok"
                except impl.exceptions.SchemaError:
                    return "SchemaError"
                except impl.exceptions.ValidationError:
                    return "ValidationError"
                except Exception as e:
                    return "raises:" + impl.tname(e)

            def cs():
                try:
                    cls.check_schema(sobj)
                    return True
                except impl.exceptions.SchemaError:
                    return False
                except Exception:
                    return None
            before = mv()
            saved = where.get("type", Untouchable)
            where["type"] = 12                           # no draft lets a number be a type
            during, cs_during = mv(), cs()
            if saved is Untouchable:
                del where["type"]
            else:
                where["type"] = saved
            after = mv()
            res.evals += 3
            res.labels.append("edited-in-place")
            if cs_during is False and during != "SchemaError":
                res.fail(("module-validate", "schema-edited-in-place-not-rechecked"),
                         "validate() on the same schema object after an in-place edit made it invalid (check_schema: "
                         "SchemaError): %s; before the edit: %s" % (during, before))
            if after != before:
                res.fail(("module-validate", "edit-undone-but-outcome-differs"), "before %s, after undoing the edit %s" % (before, after))
        return res

    def focus(self, case, bucket):
        if case.get("kind") == "world":
            return
        xs = list(case["instances"])
        if case.get("probes") and isinstance(case["schema"], dict):
            xs += GI.probes(case["schema"], case["probes"])
        for x in xs:
            yield dict(case, instances=[x], probes=0)


PROP = C04()
