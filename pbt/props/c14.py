"""C14 — JSON-Pointer fragments resolve to exactly the addressed value, or fail cleanly
(round trip through O-PTR encoding + typed-failure oracle)."""
import copy

from hypothesis import strategies as st

from .. import impl
from ..gen import values as V
from ..harness import Prop, Result
from ..oracle import pointer as optr

KEYS = ["", "/", "~", "~0", "~1", "~01", "~10", "%", "%25", "%2F", "#", "?", " ", '"', "\\", "é", "\U0001F600",
        "0", "1", "01", "-1", "-", "a/b", "a~b", "m~n/o", "a", "b", "$ref", "x y", "+1", "1.0", "a%b", "//", "~~",
        "é/~", "&=", "[0]", "ü%zz"]
keys = st.sampled_from(KEYS)
leaf = st.one_of(st.none(), st.booleans(), st.integers(-2, 9), st.sampled_from(["", "s", "abc", "0"]))
docs = st.recursive(leaf, lambda c: st.one_of(st.lists(c, max_size=4), st.dictionaries(keys, c, max_size=4),
                                            # arrays with two-digit indices, objects with many members
                                            st.lists(c, min_size=10, max_size=24), st.dictionaries(keys, c, min_size=9, max_size=16)),
                    max_leaves=20)
BAD_INDEX = ["-", "-1", "01", "+1", " 1", "1 ", "1\n", "0\n", "\n1", "1\r", "1\t", "1_0", "1.0", "１", "", "a", "0x1", "1e0", "٠", "00",
             "9" * 25, "1" + "0" * 5000, "9" * 4301]
OPTIONAL = list("~!$&'()*+,;=:@/?-._") + list("abAB019")


def locations(doc, pre=()):
    yield pre, doc
    if isinstance(doc, dict):
        for k, v in doc.items():
            for r in locations(v, pre + (k,)):
                yield r
    elif isinstance(doc, list):
        for i, v in enumerate(doc):
            for r in locations(v, pre + (str(i),)):
                yield r


@st.composite
def cases(draw):
    if draw(st.integers(0, 60)) == 0:
        # a document nested far deeper than any recursion limit; built in the check from these numbers (JSON text of
        # such a document could not even be written by the json module)
        return {"deep": draw(st.sampled_from([900, 1200, 3000, 6000])), "shape": draw(st.integers(0, 2))}
    doc = draw(docs.filter(lambda d: isinstance(d, (dict, list))))
    also = draw(st.lists(st.sampled_from(OPTIONAL), max_size=4, unique=True))
    locs = [p for p, _ in locations(doc)]
    neg = []
    for _ in range(draw(st.integers(1, 4))):
        p = draw(st.sampled_from(locs))
        node = doc
        for t in p:
            node = node[int(t)] if isinstance(node, list) else node[t]
        if isinstance(node, list):
            bad = draw(st.one_of(st.sampled_from(BAD_INDEX), st.just(str(len(node))), st.just(str(len(node) + 3))))
        elif isinstance(node, dict):
            bad = draw(keys.filter(lambda k: k not in node))
        else:
            bad = draw(st.one_of(keys, st.sampled_from(["0", "1", ""])))
        tail = draw(st.lists(keys, max_size=2))
        neg.append(list(p) + [bad] + tail)
    ndecoy = 0
    if draw(st.booleans()):
        # members that merely LOOK like identifiers naming a pointer: {"id": "#/a/0"} is data, the pointer still
        # means the location it spells
        holders = [p for p, n in locations(doc) if isinstance(n, dict)]
        for _ in range(draw(st.integers(1, 2))):
            if not holders:
                break
            h = walk_tokens(doc, draw(st.sampled_from(holders)))
            t = draw(st.sampled_from(locs + [tuple(n) for n in neg]))
            kw = draw(st.sampled_from(["id", "$id"]))
            if kw not in h:
                h[kw] = "#" + optr.encode(list(t), also)
                ndecoy += 1
    return {"doc": doc, "also": also, "negative": neg, "draft": draw(st.sampled_from([4, 6, 7, 3])), "decoys": ndecoy}


class Marker(object):
    pass


def walk_tokens(doc, tokens):
    node = doc
    for t in tokens:
        node = node[int(t)] if isinstance(node, list) else node[t]
    return node


class C14(Prop):
    ID = "C14"
    QUICK = 1800
    THOROUGH = 30000
    RULE = ("case = (JSON document with hostile keys, a set of optionally percent-encoded characters, 1-4 negative "
            "pointers).  Positive half: for EVERY location of the document the pointer is encoded (RFC 6901 escaping, "
            "then RFC 3986 percent-encoding, optional characters encoded per the drawn set) and resolve_fragment must "
            "return the very object at that location (identity); the same end-to-end through {'$ref': '#'+fragment} "
            "with a const/enum probe.  Negative half: a valid prefix followed by a first token that addresses nothing "
            "(missing key, index out of range, non-index token on an array, any token on a scalar or string) must "
            "raise RefResolutionError.  One evaluation per pointer; non-trivial: path length >= 1 containing an "
            "escape-relevant character, an array index or an empty token, or any negative pointer.")
    ASSUMPTIONS = ["O-PTR (pbt/oracle/pointer.py) implements RFC 6901 section 4 and the fragment encoding of section 6"]
    GATES = {"pos:escape-char": 500, "pos:array-index": 500, "pos:empty-token": 100, "neg:bad-index": 200,
             "neg:missing-key": 200, "neg:scalar-child": 200, "e2e": 500, "identifier-lookalikes": 500}
    MIN_NONTRIVIAL = 500

    def strategy(self, tier):
        return cases()

    def check_deep(self, case, res):
        n, shape = case.get("deep"), case.get("shape", 0)
        if not isinstance(n, int) or not 1 <= n <= 10000:
            res.excluded = "malformed"
            return res
        leafv = {"leaf": ["here"]}
        doc, tokens = leafv, []
        for i in range(n):
            if shape == 0 or (shape == 2 and i % 2):
                doc = [doc]
                tokens.append("0")
            else:
                doc = {"k/~": doc}
                tokens.append("k/~")
        tokens.reverse()
        frag = "".join("/" + optr.escape(t).replace("~", "%7E") for t in tokens)
        resolver = impl.validators.RefResolver("", {})
        res.evals += 2
        res.labels.append("deep-document")
        res.nontrivial = True
        try:
            got = resolver.resolve_fragment(doc, frag + "/leaf/0")
            if got != "here":
                res.fail(("deep", "wrong-value"), "depth %d: returned %r" % (n, got))
        except Exception as e:
            res.fail(("deep", "raises", impl.tname(e)), "a pointer of %d tokens into a document nested that deep raised %s" % (n, impl.tname(e)))
        try:
            resolver.resolve_fragment(doc, frag + "/leaf/7")
            res.fail(("deep", "negative-returns-a-value"), "depth %d" % n)
        except impl.exceptions.RefResolutionError:
            pass
        except Exception as e:
            res.fail(("deep", "negative-wrong-exception", impl.tname(e)), "depth %d: %s" % (n, impl.tname(e)))
        # unlink iteratively: dropping a 6000-level structure at once would recurse in the deallocator
        while isinstance(doc, (list, dict)) and doc is not leafv:
            nxt = doc[0] if isinstance(doc, list) else doc["k/~"]
            doc.clear()
            doc = nxt
        return res

    def check(self, case):
        res = Result()
        res.evals = 0
        if "deep" in case:
            return self.check_deep(case, res)
        doc = case["doc"]
        if not isinstance(doc, (dict, list)):
            res.excluded = "scalar-document"
            return res
        also = set(case.get("also", []))
        if case.get("decoys"):
            res.labels.append("identifier-lookalikes")
        RefResolver = impl.validators.RefResolver
        resolver = RefResolver("", doc)
        for tokens, node in locations(doc):
            frag = optr.encode(list(tokens), also)
            res.evals += 1
            try:
                got = resolver.resolve_fragment(doc, frag)
            except Exception as e:
                res.fail(("positive", "raises", impl.tname(e)), "fragment %r for path %r raised %r" % (frag, tokens, e))
                continue
            if got is not node:
                res.fail(("positive", "wrong-value"), "fragment %r for path %r returned %s, expected %s" % (
                    frag, list(tokens), impl.cj(got)[:100], impl.cj(node)[:100]))
            if tokens:
                if any(c in t for t in tokens for c in "~/%#? \"\\") or any(ord(c) > 127 for t in tokens for c in t):
                    res.labels.append("pos:escape-char")
                    res.nontrivial = True
                if any(t == "" for t in tokens):
                    res.labels.append("pos:empty-token")
                    res.nontrivial = True
                n2 = doc
                for t in tokens:
                    if isinstance(n2, list):
                        res.labels.append("pos:array-index")
                        res.nontrivial = True
                        break
                    n2 = n2[t]
        # ... and once more: resolving is a pure function of (document, fragment), also the second time round
        for tokens, node in locations(doc):
            frag = optr.encode(list(tokens), also)
            try:
                again = resolver.resolve_fragment(doc, frag)
            except Exception as e:
                res.fail(("positive-again", "raises", impl.tname(e)), "second resolution of fragment %r raised %r" % (frag, e))
                continue
            if again is not node:
                res.fail(("positive-again", "wrong-value"), "second resolution of fragment %r (path %r) returned %s, expected %s" % (
                    frag, list(tokens), impl.cj(again)[:100], impl.cj(node)[:100]))
        # ... and the same resolver object asked about OTHER, short-lived documents in between (each a modified copy):
        # what a fragment designates depends on the document handed in, not on anything seen before
        def variant(v, n):
            if isinstance(v, dict):
                return dict((k, variant(e, n)) for k, e in v.items())
            if isinstance(v, list):
                return [variant(e, n) for e in v]
            return "variant-%d" % n if isinstance(v, str) else (n if v is None else v)
        frags = [(tokens, optr.encode(list(tokens), also)) for tokens, _ in locations(doc)][:12]
        for n in range(3):
            tmp = variant(doc, n)
            for tokens, frag in frags:
                try:
                    want = optr.evaluate(tmp, list(tokens))
                    got = resolver.resolve_fragment(tmp, frag)
                except Exception as e:
                    res.fail(("other-document", "raises", impl.tname(e)), "fragment %r on a modified copy raised %r" % (frag, e))
                    break
                if got is not want:
                    res.fail(("other-document", "wrong-value"), "fragment %r on modified copy %d returned %s, that copy has %s there" % (
                        frag, n, impl.cj(got)[:80], impl.cj(want)[:80]))
                    break
            del tmp
        # ... and a run of small documents that live only for one call each (what a handler with caching off produces):
        # CPython hands the freed memory to the next one, so anything remembered by address would answer for the wrong one
        first_key = next((k for k in doc if isinstance(k, str)), None) if isinstance(doc, dict) else None
        if first_key is not None:
            frag1 = optr.encode([first_key], also)
            for n in range(6):
                t = {first_key: "value-%d" % n}
                try:
                    got = resolver.resolve_fragment(t, frag1)
                except Exception as e:
                    res.fail(("short-lived-document", "raises", impl.tname(e)), "fragment %r: %r" % (frag1, e))
                    break
                if got != "value-%d" % n:
                    res.fail(("short-lived-document", "stale-value"), "document %d of a run of short-lived documents {%r: 'value-%d'}: "
                             "fragment %r returned %r" % (n, first_key, n, frag1, got))
                    break
                del t, got
        # end-to-end: a schema document whose definitions are the drawn document's subschema-like members
        d = case.get("draft", 7)
        if d != 3:
            self.end_to_end(res, d, doc, also)
        for tokens in case.get("negative", []):
            # make sure it really addresses nothing according to O-PTR
            try:
                optr.evaluate(doc, tokens)
                res.labels.append("neg:actually-resolves(skipped)")
                continue
            except optr.PointerError:
                pass
            frag = optr.encode(list(tokens), also)
            res.evals += 1
            res.nontrivial = True
            # classify by the first bad token
            node = doc
            kind = "?"
            for t in tokens:
                if isinstance(node, dict):
                    if t in node:
                        node = node[t]
                        continue
                    kind = "missing-key"
                elif isinstance(node, list):
                    try:
                        node = optr.evaluate(node, [t])
                        continue
                    except optr.PointerError:
                        kind = "bad-index"
                else:
                    kind = "scalar-child"
                break
            res.labels.append("neg:" + kind)
            for attempt in ("first", "second"):
                try:
                    got = resolver.resolve_fragment(doc, frag)
                except impl.exceptions.RefResolutionError:
                    continue
                except Exception as e:
                    res.fail(("negative", "wrong-exception", impl.tname(e)), "fragment %r raised %r (%s attempt)" % (frag, e, attempt))
                    break
                res.fail(("negative", "returns-a-value", kind), "fragment %r (tokens %r) addresses nothing but the %s "
                         "attempt returned %s" % (frag, tokens, attempt, impl.cj(got)[:100]))
                break
        return res

    def end_to_end(self, res, d, doc, also):
        cls = impl.CLS[d]
        # place a distinguishing schema at every object location: {"enum": [<unique marker>]}
        root = copy.deepcopy(doc)
        if not isinstance(root, dict):
            root = {"definitions": root}
            prefix = ("definitions",)
        else:
            prefix = ()
        targets = []
        for tokens, node in list(locations(root)):
            if isinstance(node, dict) and not node and tokens:
                targets.append(tokens)
        for i, tokens in enumerate(targets[:6]):
            marker = "marker-%d" % i
            walk_tokens(root, tokens[:-1])[int(tokens[-1]) if isinstance(walk_tokens(root, tokens[:-1]), list)
                                            else tokens[-1]] = {"enum": [marker]}
        for i, tokens in enumerate(targets[:6]):
            marker = "marker-%d" % i
            frag = optr.encode(list(tokens), also)
            schema = {"$ref": "#" + frag}
            holder = dict(root)
            if "$ref" in holder:
                continue
            holder_schema = {"definitions": holder, "$ref": "#" + optr.encode(["definitions"] + list(tokens), also)}
            res.evals += 1
            res.labels.append("e2e")
            try:
                v = cls(holder_schema)
                ok = v.is_valid(marker)
                other = v.is_valid("something else")
            except Exception as e:
                res.fail(("e2e", "raises", impl.tname(e)), "schema %s raised %r" % (impl.cj(holder_schema)[:300], e))
                continue
            if not ok or other:
                res.fail(("e2e", "wrong-target"), "schema %s: marker accepted=%r, other accepted=%r" % (
                    impl.cj(holder_schema)[:400], ok, other))


    def extra_stages(self, tier, seed, acc):
        if tier == "thorough":
            from .. import harness
            harness.fuzz_stage(self, acc, "pbt.fuzz.c14_fuzz", seed, 150000, jobs=8, max_len=200,
                               dictionary=["~0", "~1", "~01", "%25", "%2F", "/", "-", "01", "+1"])


PROP = C14()
