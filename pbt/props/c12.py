"""C12 — format is off unless a checker is given, and then follows the checker exactly
(reference model of (checker table, conforms) + metamorphic removal of `format`)."""
import collections
import copy

from hypothesis import strategies as st

from .. import impl
from ..gen import instances as GI, schemas as GS, values as V, walk
from ..harness import Prop, Result
from ..oracle import spec
from . import c10, c13

BUILTIN = ["date", "email", "idn-email", "idn-hostname", "ipv4", "ipv6", "regex", "time", "ip-address"]
NAMES = BUILTIN + ["unknown-format", "", "IPV4", "uri", "x"]
BEHAVIOURS = ["true", "truthy-str", "truthy-list", "one", "false", "zero", "empty-str", "none", "empty-list",
              "raise-listed-0", "raise-listed-1", "raise-listed-2", "raise-unlisted", "raise-unlisted-lookup",
              "raise-unlisted-keyerror", "raise-unlisted-formaterror", "raise-unlisted-validationerror"]
TRUTHY = {"true": True, "truthy-str": "x", "truthy-list": [0], "one": 1}
FALSY = {"false": False, "zero": 0, "empty-str": "", "none": None, "empty-list": []}


class ListedA(Exception):
    pass


class ListedB(ValueError):
    pass


class ListedK(KeyError):
    """a listed exception that happens to be a KeyError (a lookup-table checker)"""


class Unlisted(Exception):
    pass


UnlistedVE = None       # a user's subclass of the library's own ValidationError (bound in setup: needs the import)


FORMAT_STRINGS = sorted(set(s for f in ("ipv4", "ipv6", "date", "email", "regex", "time") for s in c13.SEEDS[f][:14]))
fmt_instances = st.one_of(st.sampled_from(FORMAT_STRINGS), V.scalars, V.inst)
LEAF_KW = [("type", "string"), ("type", ["string", "null"]), ("minLength", 3), ("maxLength", 5), ("enum", ["1.2.3.4", 1]),
           ("minimum", 2), ("type", "integer"), ("pattern", "^[0-9]"), ("minItems", 1), ("required_", None)]


@st.composite
def scripts(draw):
    out = {}
    for n in draw(st.lists(st.sampled_from(["s1", "s2", "ipv4", "date", "", "100%", "%s"]), min_size=1, max_size=3, unique=True)):
        out[n] = {"listed": draw(st.sampled_from([[], ["ListedA"], ["ListedA", "ListedB"], ["ListedK"],
                                                  ["ListedB", "ListedK", "ListedA"], ["KeyError"]])),
                  "default": draw(st.sampled_from(BEHAVIOURS)),
                  "table": {}}
    return out


@st.composite
def cases(draw):
    d = draw(st.sampled_from(impl.DRAFTS))
    mode = draw(st.sampled_from(["nochecker", "flat", "flat", "nested", "nonstring"]))
    kind = draw(st.sampled_from(["default", "subset", "draft", "scripted", "scripted"]))
    checker = {"kind": kind}
    if kind == "subset":
        checker["subset"] = draw(st.lists(st.sampled_from(["date", "email", "ipv4", "ipv6", "regex", "time"]),
                                          max_size=3, unique=True))
    if kind == "scripted":
        checker["script"] = draw(scripts())
        checker["late"] = draw(st.integers(0, 3)) == 0
    names = NAMES + (sorted(checker.get("script", {})))
    xs = draw(st.lists(fmt_instances, min_size=3, max_size=4))
    if draw(st.booleans()):
        # values that are equal for Python (==, hash) but different JSON values, one after the other
        xs = xs + draw(st.sampled_from([[1, True, 1.0], [True, 1], [0, False, 0.0], [False, 0], [1.0, 1]]))
    if kind == "scripted":
        for n, sc in checker["script"].items():
            for x in xs:
                if draw(st.booleans()):
                    sc["table"][impl.cj(x)] = draw(st.sampled_from(BEHAVIOURS))
    if mode == "nochecker":
        s = draw(GS.root_schemas(d, 6))
        fpos = [{"pos": draw(st.integers(0, 40)), "name": draw(st.sampled_from(names))}
                for _ in range(draw(st.integers(1, 3)))]
        return {"draft": d, "mode": mode, "schema": s, "formats": fpos, "instances": xs, "checker": {"kind": "none"}}
    if mode == "flat":
        s = {"format": draw(st.sampled_from(names))}
        for k, v in draw(st.lists(st.sampled_from(LEAF_KW), max_size=2, unique_by=lambda t: t[0])):
            if k != "required_":
                s[k] = copy.deepcopy(v)
        ks = draw(st.permutations(list(s)))
        s = dict((k, s[k]) for k in ks)
        return {"draft": d, "mode": mode, "schema": s, "instances": xs, "checker": checker}
    if mode == "nested":
        s = draw(GS.root_schemas(d, 6))
        fpos = [{"pos": draw(st.integers(0, 40)), "name": draw(st.sampled_from(names))}
                for _ in range(draw(st.integers(1, 3)))]
        return {"draft": d, "mode": mode, "schema": s, "formats": fpos, "instances": xs, "checker": checker}
    nonstr = draw(st.lists(st.one_of(st.none(), st.booleans(), V.nums, st.lists(V.scalars, max_size=2),
                                     st.dictionaries(V.small_keys, V.scalars, max_size=2)), min_size=3, max_size=5))
    return {"draft": d, "mode": mode, "schema": {}, "instances": nonstr,
            "checker": {"kind": draw(st.sampled_from(["default", "draft", "subset-all"]))}}


def with_formats(d, schema, fpos):
    s2 = copy.deepcopy(schema)
    pos = [p for p, sub in walk.walk(d, s2) if isinstance(sub, dict) and "$ref" not in sub]
    n = 0
    for f in fpos:
        if not pos:
            break
        node = walk.get(s2, pos[f["pos"] % len(pos)])
        if "format" in node:
            continue
        node["format"] = f["name"]
        n += 1
    return s2, n


class Scripted(object):
    """Builds a FormatChecker whose functions follow the script, and the model of what it must do."""

    def __init__(self, script, late=False):
        self.script = script
        self.raised = []        # exception objects raised by listed behaviours, in order
        self.fc = impl.jsonschema.FormatChecker(formats=())
        self.registered = False
        if not late:
            self.register()

    def register(self):
        """Late mode: the caller registers after having handed the (still empty) checker to a validator."""
        if self.registered:
            return
        self.registered = True
        exc = {"ListedA": ListedA, "ListedB": ListedB, "ListedK": ListedK, "KeyError": KeyError}
        for name, sc in self.script.items():
            listed = tuple(exc[n] for n in sc["listed"])
            self.fc.checks(name, raises=listed)(self.make(name, sc, listed))

    def behaviour(self, name, x):
        sc = self.script[name]
        return sc["table"].get(impl.cj(x), sc["default"])

    def make(self, name, sc, listed):
        def fn(instance):
            b = self.behaviour(name, instance)
            if b in TRUTHY:
                return TRUTHY[b]
            if b in FALSY:
                return copy.copy(FALSY[b])
            if b.startswith("raise-listed") and listed:
                e = listed[int(b[-1]) % len(listed)]("scripted listed failure")
                self.raised.append(e)
                raise e
            if b == "raise-unlisted-lookup":
                e = LookupError("scripted unlisted failure")
            elif b == "raise-unlisted-keyerror" and KeyError not in listed:
                e = KeyError("scripted unlisted failure")
            elif b == "raise-unlisted-formaterror":
                e = impl.exceptions.FormatError("scripted unlisted FormatError raised by the function itself")
            elif b == "raise-unlisted-validationerror":
                # the library's own error type, raised -- not yielded -- by user code: still an unlisted exception
                global UnlistedVE
                if UnlistedVE is None:
                    UnlistedVE = type("UnlistedVE", (impl.exceptions.ValidationError,), {})
                e = UnlistedVE("scripted unlisted ValidationError raised by the function itself")
            else:
                e = Unlisted("scripted unlisted failure")
            self.raised.append(e)
            raise e
        return fn

    def model(self, name, x):
        """'ok' | 'fail' | 'fail-cause' | 'propagate'"""
        if name not in self.script:
            return "ok"
        b = self.behaviour(name, x)
        if b in TRUTHY:
            return "ok"
        if b in FALSY:
            return "fail"
        if b.startswith("raise-listed") and self.script[name]["listed"]:
            return "fail-cause"
        if b == "raise-unlisted-formaterror":
            return "fail"       # conforms() is false for it: FormatError is what check() itself raises
        return "propagate"


def build_checker(d, spec_, allow_late=False):
    js = impl.jsonschema
    k = spec_["kind"]
    if k == "none":
        return None, None
    if k == "default":
        return js.FormatChecker(), None
    if k == "draft":
        return impl.DRAFT_CHECKERS[d], None
    if k == "subset":
        names = [n for n in spec_.get("subset", []) if n in js.FormatChecker.checkers]
        how = len("".join(names)) % 4          # `formats` is documented as an iterable of names: any kind of iterable
        arg = names if how == 0 else tuple(names) if how == 1 else iter(names) if how == 2 else (n for n in names)
        return js.FormatChecker(formats=arg), None
    if k == "subset-all":
        return js.FormatChecker(formats=sorted(js.FormatChecker.checkers)), None
    sc = Scripted(spec_["script"], late=bool(spec_.get("late")) and allow_late)
    return sc.fc, sc


def key_nocause(e):
    return c10.key(e)


class C12(Prop):
    ID = "C12"
    QUICK = 2200
    THOROUGH = 25000
    RULE = ("case = (draft, mode, checker configuration in {none, FormatChecker(), FormatChecker(formats=subset), the "
            "draft's checker, a checker populated with scripted functions}, instances of every JSON type incl. "
            "format-relevant strings).  A scripted function follows a table instance -> {return one of 4 truthy "
            "objects, one of 5 falsy objects, raise a listed exception, raise an unlisted exception}.  Modes: "
            "nochecker: errors with `format` inserted at 1-3 positions == errors without it; flat: `format` + leaf "
            "assertions at the root: other errors unchanged and exactly one format error iff the model says "
            "non-conforming, cause identity on listed raises, unlisted exceptions propagate unchanged (identity), "
            "unknown names never fail; nested: verdict == O-SPEC with the model as format callback; nonstring: every "
            "built-in name of every built-in checker accepts every non-string.  conforms == (check did not raise "
            "FormatError) throughout.  Non-trivial: checker present and (name known to it) and (instance not a "
            "string or outcome other than 'return True').")
    ASSUMPTIONS = ["for built-in functions the model of conformance is the checker's own conforms() (C13 decides "
                   "whether that is the right grammar)"]
    GATES = {"mode:nochecker": 500, "mode:flat": 800, "mode:nested": 400, "mode:nonstring": 400, "model:fail": 300,
             "model:fail-cause": 100, "model:propagate": 100, "model:ok": 300, "unknown-name": 200}
    MIN_NONTRIVIAL = 500

    def selftest(self):
        from ..oracle import selftest
        selftest.run()

    def strategy(self, tier):
        return cases()

    def check(self, case):
        res = Result()
        res.evals = 0
        d, mode = case["draft"], case["mode"]
        cls = impl.CLS[d]
        if mode not in ("nochecker", "flat", "nested", "nonstring"):
            res.excluded = "malformed"
            return res
        res.labels.append("mode:" + mode)
        try:
            return getattr(self, "check_" + mode)(case, res, d, cls)
        except (KeyError, TypeError, IndexError) as e:
            if "script" in repr(e) or isinstance(case.get("checker"), dict) is False:
                res.excluded = "malformed"
                return res
            raise

    # -- no checker: format has no effect anywhere
    def check_nochecker(self, case, res, d, cls):
        s = case["schema"]
        if walk.has_ref(d, s):
            res.excluded = "has-ref"
            return res
        try:
            cls.check_schema(s)
        except Exception:
            res.excluded = "schema-rejected"
            return res
        s2, n = with_formats(d, s, case["formats"])
        if not n:
            res.excluded = "nothing-inserted"
            return res
        xs = list(case["instances"]) + GI.probes(s, 10)
        for x in xs:
            res.evals += 1
            try:
                a = sorted(key_nocause(e) for e in cls(s).iter_errors(copy.deepcopy(x)))
            except Exception:
                res.excluded = "crash(C03)"
                continue
            try:
                b = sorted(key_nocause(e) for e in cls(s2).iter_errors(copy.deepcopy(x)))
            except Exception as e:
                res.fail(("nochecker", "raises", impl.tname(e)), "instance=%s" % impl.cj(x)[:200])
                continue
            if a != b:
                res.fail(("nochecker", "errors-change"), "instance=%s formats=%r" % (impl.cj(x)[:200], case["formats"]))
        res.nontrivial = True
        return res

    def model_for(self, fc, sc, name, x):
        if sc is not None:
            return sc.model(name, x)
        if name not in fc.checkers:
            return "ok"
        try:
            return "ok" if fc.conforms(x, name) else "fail"
        except Exception as e:
            # a built-in function registered with its `raises` never lets anything out of conforms()
            return "builtin-raises:" + impl.tname(e)

    # -- flat schema, checker present
    def check_flat(self, case, res, d, cls):
        s = case["schema"]
        if not isinstance(s, dict) or not isinstance(s.get("format"), str):
            res.excluded = "malformed"
            return res
        name = s["format"]
        try:
            cls.check_schema(s)
        except Exception:
            res.excluded = "schema-rejected"
            return res
        rest = dict((k, v) for k, v in s.items() if k != "format")
        # ONE checker object serves every instance of the case in turn (a checker is a long-lived object)
        fc, sc = build_checker(d, case["checker"], allow_late=True)
        if case["checker"].get("kind") == "subset":
            # FormatChecker(formats=<any iterable of names>) knows exactly those names
            wanted = set(n for n in case["checker"].get("subset", []) if n in impl.jsonschema.FormatChecker.checkers)
            if set(fc.checkers) != wanted:
                res.fail(("flat", "formats-subset-not-honoured"), "asked for %r, the checker knows %r" % (sorted(wanted), sorted(fc.checkers)))
                return res
        vlate = None
        if sc is not None and not sc.registered:
            # the validator is handed a checker that knows nothing yet; the functions are registered afterwards
            vlate = cls(copy.deepcopy(s), format_checker=fc)
            sc.register()
            res.labels.append("registered-after-construction")
        for x in case["instances"]:
            res.evals += 1
            known = name in fc.checkers
            if not known:
                res.labels.append("unknown-name")
            m = self.model_for(fc, sc, name, x)
            if sc is not None:
                del sc.raised[:]
            if m.startswith("builtin-raises"):
                res.fail(("flat", "builtin-checker-raises", name, m.split(":")[1]),
                         "checker=%s: conforms(%s, %r) raised" % (case["checker"]["kind"], impl.cj(x)[:100], name))
                continue
            res.labels.append("model:" + m)
            base = sorted(key_nocause(e) for e in cls(rest).iter_errors(copy.deepcopy(x)))
            try:
                errs = list((vlate or cls(copy.deepcopy(s), format_checker=fc)).iter_errors(x))
                raised = None
            except Exception as e:
                errs, raised = None, e
            if m == "propagate":
                if raised is None:
                    res.fail(("flat", "unlisted-exception-swallowed"), "format=%r instance=%s" % (name, impl.cj(x)[:100]))
                elif sc is not None and (not sc.raised or raised is not sc.raised[-1]):
                    res.fail(("flat", "unlisted-exception-not-identical", impl.tname(raised)), repr(raised)[:200])
                # ... through every entry point, not only the error iterator
                # (both stop at the first error: the function is certainly reached only if nothing else fails)
                for ep in (("is_valid", "validate") if not base else ()):
                    try:
                        getattr(vlate or cls(copy.deepcopy(s), format_checker=fc), ep)(x)
                        res.fail(("flat", "unlisted-exception-swallowed", ep), "format=%r instance=%s: %s returned normally" % (
                            name, impl.cj(x)[:100], ep))
                    except Exception as e2:
                        if sc is not None and (not sc.raised or e2 is not sc.raised[-1]):
                            res.fail(("flat", "unlisted-exception-not-identical", ep, impl.tname(e2)), repr(e2)[:200])
                continue
            if raised is not None:
                res.fail(("flat", "raises", impl.tname(raised)), "format=%r instance=%s: %r" % (name, impl.cj(x)[:100], raised))
                continue
            ferrs = [e for e in errs if e.validator == "format"]
            others = sorted(key_nocause(e) for e in errs if e.validator != "format")
            if others != base:
                res.fail(("flat", "other-errors-change"), "format=%r instance=%s" % (name, impl.cj(x)[:100]))
            want = 0 if m == "ok" else 1
            if len(ferrs) != want:
                res.fail(("flat", "format-error-count", "expected-%d-got-%d" % (want, len(ferrs)),
                          "known" if known else "unknown"),
                         "format=%r checker=%s instance=%s model=%s" % (name, case["checker"]["kind"], impl.cj(x)[:100], m))
                continue
            if ferrs:
                e = ferrs[0]
                if e.validator_value != name or list(e.path) or list(e.schema_path) != ["format"]:
                    res.fail(("flat", "format-error-fields"), "%r %r %r" % (e.validator_value, list(e.path), list(e.schema_path)))
                if m == "fail-cause":
                    if not sc.raised or e.cause is not sc.raised[-1]:
                        res.fail(("flat", "cause-not-the-raised-exception"), "cause=%r raised=%r" % (e.cause, sc.raised[-1:]))
                elif m == "fail" and sc is not None and e.cause is not None:
                    res.fail(("flat", "cause-on-falsy-return"), repr(e.cause))
            # conforms == check did not raise FormatError
            fc2, sc2 = build_checker(d, case["checker"])
            try:
                cf = fc2.conforms(x, name)
                try:
                    fc2.check(x, name)
                    ck = True
                except impl.exceptions.FormatError:
                    ck = False
                if cf != ck or cf != (m == "ok"):
                    res.fail(("flat", "conforms-vs-check-vs-model"), "conforms=%r check-ok=%r model=%s" % (cf, ck, m))
            except Exception as e2:
                res.fail(("flat", "conforms-raises", impl.tname(e2)), repr(e2)[:200])
            if known and (not isinstance(x, str) or m != "ok"):
                res.nontrivial = True
        # the same format keyword reached through a reference: what the function does still comes through unchanged
        if sc is not None and isinstance(s, dict) and "definitions" not in s and "$ref" not in s:
            behind = {"definitions": {"f": copy.deepcopy(s)}, "properties": {"p": {"$ref": "#/definitions/f"}}}
            for x in case["instances"][:3]:
                m = self.model_for(fc, sc, name, x)
                del sc.raised[:]
                try:
                    errs = list(cls(copy.deepcopy(behind), format_checker=fc).iter_errors({"p": x}))
                    raised = None
                except Exception as e:
                    errs, raised = None, e
                res.evals += 1
                if m == "propagate":
                    if raised is None or not sc.raised or raised is not sc.raised[-1]:
                        res.fail(("behind-ref", "unlisted-exception-not-propagated-unchanged", impl.tname(raised) if raised else "none"),
                                 "format=%r instance=%s: got %r" % (name, impl.cj(x)[:80], raised))
                elif raised is not None:
                    res.fail(("behind-ref", "raises", impl.tname(raised)), "format=%r instance=%s: %r" % (name, impl.cj(x)[:80], raised))
                elif (m != "ok") != any(e.validator == "format" for e in errs):
                    res.fail(("behind-ref", "format-error-presence"), "format=%r instance=%s model=%s errors=%r" % (
                        name, impl.cj(x)[:80], m, [e.validator for e in errs]))
        # the module-level function with ONE schema object and a different checker each time: the checker passed to a
        # call is the one that counts for that call
        sobj = copy.deepcopy(s)
        js = impl.jsonschema
        for x in case["instances"][:2]:
            if sc is not None and self.model_for(fc, sc, name, x) == "propagate":
                continue
            for label, cfg in (("case-checker", fc), ("none", None), ("empty-checker", js.FormatChecker(formats=())),
                               ("case-checker-again", fc)):
                def oc(f):
                    try:
                        f()
                        return ("ok",)
                    except impl.exceptions.ValidationError as e:
                        return ("ValidationError", str(e.validator), e.message)
                    except Exception as e:
                        return ("raises", impl.tname(e))
                want = oc(lambda: cls(copy.deepcopy(s), format_checker=cfg).validate(copy.deepcopy(x)))
                got = oc(lambda: js.validate(copy.deepcopy(x), sobj, cls=cls, format_checker=cfg))
                res.evals += 1
                if want[0] == "raises" or got[0] == "raises":
                    continue
                if (want[0] == "ok") != (got[0] == "ok") or (want[0] != "ok" and (want[1] == "format") != (got[1] == "format")):
                    res.fail(("flat", "module-validate-follows-another-checker", label),
                             "format=%r instance=%s: jsonschema.validate(..., format_checker=<%s>) -> %r, the class with "
                             "that checker -> %r" % (name, impl.cj(x)[:80], label, got[:2], want[:2]))
        return res

    # -- format nested under applicators: verdict vs O-SPEC with the model as callback
    def check_nested(self, case, res, d, cls):
        s = case["schema"]
        if walk.has_ref(d, s):
            res.excluded = "has-ref"
            return res
        try:
            cls.check_schema(s)
        except Exception:
            res.excluded = "schema-rejected"
            return res
        s2, n = with_formats(d, s, case["formats"])
        if not n:
            res.excluded = "nothing-inserted"
            return res
        xs = list(case["instances"]) + GI.probes(s, 8)
        for x in xs:
            res.evals += 1
            fc, sc = build_checker(d, case["checker"])
            hit = []

            def cb(name, inst):
                m = self.model_for(fc_model, sc_model, name, inst)
                hit.append(m)
                if m == "propagate" or m.startswith("builtin-raises"):
                    raise spec.Unsupported("scripted unlisted raise reached")
                return m == "ok"
            fc_model, sc_model = build_checker(d, case["checker"])
            ctx = spec.Ctx(d, fmt=cb)
            try:
                want = spec.valid(ctx, s2, x)
            except (spec.Unsupported, RecursionError):
                res.excluded = "oracle-unsupported-or-propagating"
                continue
            if ctx.inexact:
                continue
            try:
                got = cls(copy.deepcopy(s2), format_checker=fc).is_valid(copy.deepcopy(x))
            except (Unlisted, LookupError):
                res.labels.append("nested:propagated(order-dependent)")
                continue
            except Exception as e:
                if type(e).__name__ == "UnlistedVE":
                    res.labels.append("nested:propagated(order-dependent)")
                    continue
                res.excluded = "crash(C03):" + impl.tname(e)
                continue
            if got != want:
                res.fail(("nested", "impl-accepts" if got else "impl-rejects"),
                         "instance=%s schema=%s checker=%s" % (impl.cj(x)[:150], impl.cj(s2)[:300], case["checker"]["kind"]))
            if any(h != "ok" for h in hit):
                res.nontrivial = True
                res.labels.append("nested:format-fails-somewhere")
        return res

    # -- every built-in name of every built-in checker accepts every non-string
    def check_nonstring(self, case, res, d, cls):
        import decimal
        import fractions
        fc, _ = build_checker(d, case["checker"])
        # numbers that json.loads(parse_float=Decimal) or a caller may hand over are non-strings as well
        for x in (decimal.Decimal("1.5"), decimal.Decimal(3), fractions.Fraction(1, 3)):
            for name in sorted(fc.checkers):
                res.evals += 1
                try:
                    ok = fc.conforms(x, name)
                except Exception as e:
                    res.fail(("nonstring", "raises", name, impl.tname(e)), "instance=%r: %r" % (x, e))
                    continue
                if ok is not True:
                    res.fail(("nonstring", "rejected", name), "format %r rejects the non-string %r" % (name, x))
        for x in case["instances"]:
            if isinstance(x, str):
                continue
            for name in sorted(fc.checkers):
                res.evals += 1
                try:
                    ok = fc.conforms(x, name)
                    errs = list(cls({"format": name}, format_checker=fc).iter_errors(x))
                except Exception as e:
                    res.fail(("nonstring", "raises", name, impl.tname(e)), "instance=%s: %r" % (impl.cj(x)[:100], e))
                    continue
                if ok is not True or errs:
                    res.fail(("nonstring", "rejected", name), "format %r rejects the non-string %s" % (name, impl.cj(x)[:100]))
        res.nontrivial = True
        return res


PROP = C12()
