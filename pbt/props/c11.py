"""C11 — check_schema accepts exactly what the draft's bundled metaschema allows
(differential vs O-SPEC evaluating the metaschema under the draft's own rules)."""
import copy

from hypothesis import strategies as st

from .. import impl
from ..gen import schemas as GS, values as V, walk, worlds as GW
from ..harness import Prop, Result
from ..oracle import spec
from . import c03


_REF = {}


def reference_metaschemas(d):
    import json
    import os
    if not _REF:
        here = os.path.join(os.path.dirname(os.path.dirname(os.path.abspath(__file__))), "oracle", "metaschemas")
        for dd, u in ((3, "http://json-schema.org/draft-03/schema"), (4, "http://json-schema.org/draft-04/schema"),
                      (6, "http://json-schema.org/draft-06/schema"), (7, "http://json-schema.org/draft-07/schema")):
            with open(os.path.join(here, "draft%d.json" % dd)) as f:
                _REF[dd] = (u, json.load(f))
    docs = dict((u, m) for u, m in _REF.values())
    return _REF[d][1], docs


@st.composite
def mutate_schema(draw, d, s):
    """1-3 type/shape mutations at any depth of a well-meant schema."""
    s = copy.deepcopy(s)
    n = draw(st.integers(1, 3))
    for _ in range(n):
        pos = [p for p, sub in walk.walk(d, s) if isinstance(sub, dict) and sub]
        if not pos:
            break
        p = draw(st.sampled_from(pos))
        node = walk.get(s, p)
        k = draw(st.sampled_from(sorted(node)))
        node[k] = draw(st.one_of(GS.ODD, V.inst))
    return s


@st.composite
def cases(draw):
    d = draw(st.sampled_from(impl.DRAFTS))
    src = draw(st.sampled_from(["well-meant", "mutated", "mutated", "liberal", "liberal", "arbitrary", "metaschema",
                                "deep", "number-mix", "unique-mix"]))
    if src == "unique-mix":
        # arrays the metaschema wants unique (enum in drafts 3/4, Draft 3's type / disallow, which may hold schemas)
        # filled with items that are JSON-equal but spelled differently (1 / 1.0 inside an object or array, key
        # order) next to look-alikes that are distinct (true / 1): uniqueness is JSON equality at any depth
        # (drafts 6 and 7 demand uniqueness only of string arrays: the flavour would be vacuous there)
        d = draw(st.sampled_from([3, 3, 4]))
        pairs = [(1, 1.0), (0, 0.0), (0, -0.0), (2 ** 53, float(2 ** 53)), (3, 3.0), (1e2, 100), (True, 1), (False, 0),
                 (1, 1), (1, 2), (1.0, 1.5), (True, 1.0), ("a", "a"), ("a", "b")]
        a, b = draw(st.sampled_from(pairs))
        if draw(st.booleans()):
            a, b = b, a
        key = draw(st.sampled_from(["enum", "enum", "type", "disallow"] if d == 3 else ["enum"]))
        if key == "enum":
            wraps = [lambda x: x, lambda x: [x], lambda x: {"a": x}, lambda x: {"a": [x], "b": 0}, lambda x: [[x], "s"],
                     lambda x: {"minimum": x}]
        else:
            wraps = [lambda x: {"default": x}, lambda x: {"default": [x]}, lambda x: {"enum": [x, "z"]},
                     lambda x: {"default": {"k": x}, "title": "t"}]
            if not isinstance(a, (bool, str)) and not isinstance(b, (bool, str)):
                wraps += [lambda x: {"minimum": x}, lambda x: {"maxLength": x}] if a >= 0 and b >= 0 else [lambda x: {"minimum": x}]
        w = draw(st.sampled_from(wraps))
        wa, wb = w(a), w(b)
        if isinstance(wb, dict) and len(wb) == 2 and draw(st.booleans()):
            wb = dict(reversed(list(wb.items())))
        extras = draw(st.lists(st.sampled_from(["string", "number", "null", "zz"] if key != "enum" else ["x", None, 7, [], {}]),
                               max_size=2, unique_by=repr))
        arr = [wa] + extras + [wb]
        if draw(st.booleans()):
            arr = list(reversed(arr))
        c = {key: arr}
        if draw(st.integers(0, 2)) == 0:
            c = draw(st.sampled_from([{"properties": {"p": c}}, {"items": c}, {"additionalProperties": c}]))
    elif src == "number-mix":
        # several keywords of one kind whose values differ only in being integral or not (1.0 vs 1.5 vs 1): each
        # is judged for itself, in whatever order the metaschema is walked
        ks = ["maxLength", "minLength", "maxItems", "minItems"] + (["maxProperties", "minProperties"] if d >= 4 else [])
        # (json.loads("1e400") is float("inf"): JSON text can say it, so it can be offered; only under keywords whose
        # metaschema entry demands an integer, so that such a candidate is always refused and never used to validate)
        nums = [1.0, 1.5, 2.0, 0.5, 3, 0, 0.0, 2.5, 1e2, 7.000001, float("inf"), float("-inf")]

        def flat():
            return dict((k, draw(st.sampled_from(nums))) for k in draw(st.lists(st.sampled_from(ks), min_size=2, max_size=4, unique=True)))
        c = flat()
        if draw(st.booleans()):
            c = dict(draw(st.sampled_from([{"properties": {"a": flat()}}, {"items": flat()}, {"additionalProperties": flat()}])), **c)
    elif src == "well-meant":
        c = draw(GS.root_schemas(d, 8))
    elif src == "mutated":
        c = draw(mutate_schema(d, draw(GS.root_schemas(d, 8))))
    elif src == "liberal":
        c = draw(GS.liberal(d, 6))
    elif src == "deep":
        # a (possibly faulty) keyword below many levels of well-formed nesting: the metaschema applies at any depth
        c = draw(st.sampled_from([{"minLength": 1}, {"minLength": "x"}, {"type": 12}, {"type": "string"}, {"items": 5},
                                  {"maxItems": -1}, {"enum": []} if d >= 6 else {"maxLength": 2}, {"required": 7}]))
        for _ in range(draw(st.integers(25, 90))):
            k = draw(st.sampled_from(["additionalProperties", "items", "properties", "not" if d >= 4 else "extends",
                                      "allOf" if d >= 4 else "extends", "additionalItems"]))
            c = {k: {"p": c}} if k == "properties" else {k: [c]} if k == "allOf" else {k: c}
    elif src == "arbitrary":
        c = draw(st.one_of(V.values(8, wide=True), GS.ODD))
    else:
        c = {"$metaschema-of-draft": draw(st.sampled_from(impl.DRAFTS))}
    if isinstance(c, dict) and src != "metaschema" and draw(st.integers(0, 3)) == 0:
        c = dict(c)
        ids = {3: "http://json-schema.org/draft-03/schema#", 4: "http://json-schema.org/draft-04/schema#",
               6: "http://json-schema.org/draft-06/schema#", 7: "http://json-schema.org/draft-07/schema#"}
        # check_schema of class X applies X's metaschema whatever the candidate says about itself
        c["$schema"] = draw(st.sampled_from([ids[d], ids[d], ids[3], ids[4], ids[6], ids[7], ids[4][:-1], ids[7][:-1],
                                             "http://example.com/unknown#"]))
    xs = draw(st.lists(c03.hostile, min_size=2, max_size=2))
    return {"draft": d, "candidate": c, "source": src, "instances": xs}


class C11(Prop):
    ID = "C11"
    QUICK = 800
    THOROUGH = 20000
    RULE = ("case = (draft, candidate schema: well-meant, well-meant with 1-3 type/shape mutations at any depth, "
            "liberal unfiltered, several numeric keywords with integral / fractional float values, arbitrary JSON incl. non-objects, or one of the four bundled metaschemas).  Oracle: "
            "check_schema returns normally iff O-SPEC (independent evaluator with its own '#'-pointer resolver) finds "
            "the candidate valid against the class's bundled META_SCHEMA under that draft's rules; otherwise the "
            "exception is exactly SchemaError.  Accepted candidates are then validated against 2 hostile instances "
            "with C03's totality oracle.  Non-trivial: the candidate is an object with >= 1 keyword of the draft.")
    ASSUMPTIONS = ["the reference metaschemas are pinned copies of the bundled files (pbt/oracle/metaschemas), i.e. the published "
                   "metaschemas with the repository's known Draft 3 laxness",
                   "format inside the metaschemas is not enforced by check_schema (no format checker is passed)",
                   "accepted candidates with $ref or uncompilable regexes are not passed on to the totality oracle"]
    GATES = {"accepted": 1500, "rejected": 1500, "src:mutated:rejected": 300, "src:metaschema": 50,
             "src:unique-mix:rejected": 150, "src:unique-mix:accepted": 150}
    MIN_NONTRIVIAL = 1000

    def selftest(self):
        from ..oracle import selftest
        selftest.run()

    def strategy(self, tier):
        return cases()

    def check(self, case):
        res = Result()
        d = case["draft"]
        cls = impl.CLS[d]
        c = case["candidate"]
        if isinstance(c, dict) and list(c) == ["$metaschema-of-draft"]:
            md = c["$metaschema-of-draft"]
            if md not in impl.DRAFTS:
                res.excluded = "malformed"
                return res
            c = copy.deepcopy(reference_metaschemas(md)[0])
            own = md == d
        else:
            own = False
        # the reference is the pinned copy of the bundled metaschema kept with the oracle (pbt/oracle/metaschemas):
        # a change to the bundled file that changes what is accepted is then visible as a disagreement
        meta, docs = reference_metaschemas(d)
        mid = cls.ID_OF(cls.META_SCHEMA) or {3: "http://json-schema.org/draft-03/schema#",
                                             4: "http://json-schema.org/draft-04/schema#",
                                             6: "http://json-schema.org/draft-06/schema#",
                                             7: "http://json-schema.org/draft-07/schema#"}[d]
        ctx = spec.Ctx(d, resolver=spec.WorldResolver(docs))
        from ..oracle import uri as ouri
        try:
            want = spec.valid(ctx, meta, c, ouri.defrag(mid)[0])
        except (spec.Unsupported, spec.Unresolvable, RecursionError) as e:
            res.excluded = "oracle:" + str(e)[:40]
            return res
        if ctx.inexact:
            res.excluded = "C09-outside-exact-domain"
            return res
        try:
            cls.check_schema(copy.deepcopy(c))
            got = True
        except impl.exceptions.SchemaError:
            got = False
        except Exception as e:
            res.fail(("check_schema-wrong-exception", impl.tname(e), c03.innermost(e)),
                     "candidate=%s raised %r" % (impl.cj(c)[:300], e))
            return res
        res.labels.append("accepted" if got else "rejected")
        res.labels.append("src:%s:%s" % (case.get("source"), "accepted" if got else "rejected"))
        if case.get("source") == "metaschema":
            res.labels.append("src:metaschema")
        if own and not got:
            res.fail(("own-metaschema-rejected", d), "draft %d rejects its own bundled metaschema" % d)
        if got != want:
            failing = "" if want else spec.first_failing(spec.Ctx(d, resolver=spec.WorldResolver(docs)), meta, c,
                                                         ouri.defrag(mid)[0])
            res.fail(("acceptance", "impl-accepts" if got else "impl-rejects", d),
                     "candidate=%s: O-SPEC on the bundled metaschema says %s%s" % (
                         impl.cj(c)[:400], "valid" if want else "invalid", " (keyword %s)" % failing if failing else ""))
        res.nontrivial = isinstance(c, dict) and any(k in spec.KW[d] for k in c)
        if got and not c03.risky_ref(c) and not c03.bad_regex(c) and case.get("source") != "metaschema":
            for x in case.get("instances", []):
                c03.judge(res, d, c, x, ("none", "draft"))
        return res


    def extra_stages(self, tier, seed, acc):
        """Exhaustive small scope: every keyword of every draft x C03's 60-value pool, at the root and nested
        under properties / items / (draft >= 4) allOf."""
        from ..harness import run_case
        n = 0
        for d in impl.DRAFTS:
            for k in c03.enum_keywords(d):
                for v in c03.VALUE_POOL:
                    wraps = [{k: v}, {"properties": {"p": {k: v}}}, {"items": [{k: v}]}]
                    if d >= 4:
                        wraps.append({"allOf": [{k: v}], "$schema": "http://json-schema.org/draft-0%d/schema#" % d})
                        wraps.append({k: v, "$schema": "http://json-schema.org/draft-0%d/schema#" % (7 if d == 4 else 4)})
                    else:
                        wraps.append({"extends": {k: v}})
                    for c in wraps:
                        run_case(self, {"draft": d, "candidate": copy.deepcopy(c), "source": "enumeration",
                                        "instances": []}, acc, keep_sample=False)
                        n += 1
        acc.extra["enumerated_candidates"] = n


PROP = C11()
