"""C16 — deriving checkers and validator classes never disturbs the originals
(model-based stateful testing: derivation histories, probe vectors recorded at creation and re-checked after
every later operation)."""
import copy

from hypothesis import strategies as st

from .. import impl
from ..harness import Prop, Result

TYPE_NAMES = ["array", "boolean", "integer", "null", "number", "object", "string", "any", "custom"]
# names whose meaning may be changed without changing how the implementation reads SCHEMAS (it asks the type
# checker whether keyword values are "object" / "array" / "string" / "number")
SAFE_TYPE_NAMES = ["integer", "null", "boolean", "any", "custom"]
TYPE_VALUES = [None, True, False, 0, 1, 1.0, 1.5, "", "a", [], [1], {}, {"a": 1}]
FORMAT_NAMES = ["ipv4", "date", "regex", "email", "custom-a", "custom-b", "ip-address", "unknown"]
FORMAT_VALUES = ["1.2.3.4", "x", "2020-01-01", "(", "a@b", 5, None, "AAA"]

PROBE_PAIRS = [
    ({"type": "integer"}, 1.0), ({"type": "integer"}, True), ({"type": "string"}, "a"), ({"type": "number"}, 1),
    ({"type": "custom"}, "x"), ({"type": "array", "minItems": 1}, []), ({"minimum": 1, "maxLength": 1}, 0),
    ({"minimum": 1, "maxLength": 1}, "ab"), ({"format": "ipv4"}, "x"), ({"format": "custom-a"}, "AAA"),
    ({"const": 1}, 2), ({"enum": [1]}, 1.0), ({"required": ["a"], "properties": {"a": {"type": "null"}}}, {"a": 1}),
    ({"items": {"maximum": 1}}, [0, 2]), ({"marker": 1, "minLength": 1}, ""), ({"marker": 1}, 5),
    ({"dependencies": {"a": ["b"]}}, {"a": 1, "b": 2}), ({"dependencies": {"a": ["b"]}, "required": ["a"]}, {"a": 1}),
    ({"enum": [1], "const": 1}, 1), ({"minimum": 2, "exclusiveMinimum": 1, "maximum": 2}, 2),
    ({"id": "http://ex.test/a/", "properties": {"p": {"$ref": "t.json"}}}, {"p": 1}),
    ({"$id": "http://ex.test/a/", "properties": {"p": {"$ref": "t.json"}}}, {"p": 1}),
]
STORE = {"http://ex.test/a/t.json": {"type": "string"}, "t.json": {"type": "integer"}}
OVERRIDABLE = ["minimum", "maxLength", "minLength", "type", "enum", "marker", "required", "const"]
OPS = ["redefine", "redefine_many", "remove", "extend_none", "extend_override", "extend_add", "extend_types",
       "extend_wrap", "create", "create_versioned", "instance_types", "checks", "cls_checks", "fc_new", "fc_subset",
       "retype_core", "create_default_types"]
CORE_TYPE_NAMES = ["number", "object", "array", "string", "integer"]


@st.composite
def cases(draw):
    steps = []
    for _ in range(draw(st.integers(2, 14))):
        op = draw(st.sampled_from(OPS))
        steps.append({"op": op, "on": draw(st.integers(0, 30)),
                      "name": draw(st.sampled_from(CORE_TYPE_NAMES if op == "retype_core"
                                                   else SAFE_TYPE_NAMES if op in ("redefine", "redefine_many", "remove", "instance_types")
                                                   else FORMAT_NAMES if op in ("checks", "cls_checks", "fc_subset")
                                                   else OVERRIDABLE)),
                      "flavour": draw(st.integers(0, 3))})
    return {"steps": steps}


# type check functions (by flavour)
def _tf(flavour):
    return [lambda chk, x: isinstance(x, str) and x.isupper(), lambda chk, x: x is None,
            lambda chk, x: True, lambda chk, x: isinstance(x, (int, float)) and not isinstance(x, bool) and x > 0][flavour % 4]


def _ff(flavour):
    return [lambda x: not isinstance(x, str) or x.isupper(), lambda x: False, lambda x: True,
            lambda x: not isinstance(x, str) or len(x) < 3][flavour % 4]


def _marker_kw(tag):
    def kw(validator, value, instance, schema):
        yield impl.exceptions.ValidationError("marker %s: %r" % (tag, value))
    return kw


def probe_typechecker(tc):
    out = []
    for t in TYPE_NAMES:
        for v in TYPE_VALUES:
            try:
                out.append(bool(tc.is_type(v, t)))
            except impl.exceptions.UndefinedTypeCheck:
                out.append("undefined")
    return out


def probe_class(cls, fc=None):
    out = []
    for s, x in PROBE_PAIRS:
        try:
            resolver = impl.validators.RefResolver.from_schema(copy.deepcopy(s), id_of=cls.ID_OF,
                                                                store=copy.deepcopy(STORE))
            v = cls(copy.deepcopy(s), resolver=resolver, format_checker=fc)
            out.append(tuple(sorted(impl.errkey(e) for e in v.iter_errors(copy.deepcopy(x)))))
        except impl.exceptions.UnknownType:
            out.append("UnknownType")
        except impl.exceptions.RefResolutionError:
            out.append("RefResolutionError")
    for cand in ({"properties": {"a": {"x-only-here": 1}}}, {"properties": {"a": {"type": 12}}}, {"minLength": "x"},
                 {"items": [{"maxLength": 1}]}):
        try:
            cls.check_schema(copy.deepcopy(cand))
            out.append("accepted")
        except impl.exceptions.SchemaError:
            out.append("SchemaError")
        except Exception as e:
            out.append("raises:" + impl.tname(e))
    out.append(("id_of", cls.ID_OF({"id": "I"}), cls.ID_OF({"$id": "D"})))
    out.append(("meta", impl.cj(cls.META_SCHEMA)[:0] + str(len(impl.cj(cls.META_SCHEMA)))))
    out.append(("keywords", tuple(sorted(cls.VALIDATORS))))
    return out


def probe_validator(v):
    out = []
    for x in (1.0, True, "a", "AAA", None, [], {"a": 1}, 0, 2, {"p": 1}):
        try:
            out.append(tuple(sorted(impl.errkey(e) for e in v.iter_errors(x))))
        except impl.exceptions.UnknownType:
            out.append("UnknownType")
        except impl.exceptions.RefResolutionError:
            out.append("RefResolutionError")
    for t in ("integer", "string", "custom", "number"):
        for val in (1, 1.0, True, "a", "AAA"):
            try:
                out.append(bool(v.is_type(val, t)))
            except impl.exceptions.UnknownType:
                out.append("UnknownType")
    return out


def probe_formatchecker(fc):
    out = [tuple(sorted(fc.checkers))]
    for n in FORMAT_NAMES:
        for v in FORMAT_VALUES:
            try:
                out.append(bool(fc.conforms(v, n)))
            except Exception as e:
                out.append("raises:" + impl.tname(e))
    return out


def expected_typechecker(parent_vec, changes):
    """Model of a derived TypeChecker's probe vector: the parent's, except for the changed names
    (changes: name -> function, or None for a removed name)."""
    out = list(parent_vec)
    i = 0
    for t in TYPE_NAMES:
        for v in TYPE_VALUES:
            if t in changes:
                out[i] = "undefined" if changes[t] is None else bool(changes[t](None, v))
            i += 1
    return out


class World(object):
    """The pool of objects created so far, each with the probe vector recorded at its creation."""

    def __init__(self):
        self.objs = []       # (kind, object, probe-fn, recorded vector, description)

    res = None

    def add(self, kind, obj, desc):
        fn = {"tc": probe_typechecker, "cls": probe_class, "val": probe_validator, "fc": probe_formatchecker}[kind]
        self.objs.append([kind, obj, fn, fn(obj), desc])
        if kind == "cls" and self.res is not None:
            # check_schema of a class is ITS metaschema read with ITS keyword table and type checker -- also for a class
            # that shares its metaschema (and the metaschema's id) with its parent or a sibling
            for cand in ({"type": "string"}, {"minLength": -1}, {"maxLength": 2.0}, {"properties": {"a": {"type": 12}}}, {"enum": []},
                         {"minimum": "x"}):
                try:
                    own = not list(obj(obj.META_SCHEMA).iter_errors(copy.deepcopy(cand)))
                except Exception:
                    continue
                try:
                    obj.check_schema(copy.deepcopy(cand))
                    got = True
                except impl.exceptions.SchemaError:
                    got = False
                except Exception:
                    continue
                if got != own:
                    self.res.fail(("check_schema-is-not-the-class-reading-its-own-metaschema",),
                                  "%s: candidate %s: check_schema %s, the class's own evaluation of its metaschema %s" % (
                                      desc, impl.cj(cand), "accepts" if got else "refuses", "accepts" if own else "refuses"))
                    break
        return obj

    def pick(self, kind, idx):
        pool = [o for o in self.objs if o[0] == kind]
        return pool[idx % len(pool)][1]

    def recheck(self, res, after):
        for kind, obj, fn, rec, desc in self.objs:
            try:
                now = fn(obj)
            except Exception as e:
                res.fail(("probe-raises", kind, impl.tname(e)), "%s after %s: %r" % (desc, after, e))
                continue
            if now != rec:
                diff = [i for i, (a, b) in enumerate(zip(now, rec)) if a != b][:3]
                res.fail(("older-object-changed", kind), "%s changed after %s: probe indices %r, e.g. %r -> %r" % (
                    desc, after, diff, str(rec[diff[0]])[:120] if diff else "", str(now[diff[0]])[:120] if diff else ""))


class C16(Prop):
    ID = "C16"
    QUICK = 140
    THOROUGH = 4000
    RULE = ("case = history of 2-14 derivation operations starting from the four draft classes, their type checkers "
            "and format checkers: TypeChecker.redefine / redefine_many / remove (incl. unknown names), "
            "validators.extend (no change / keyword override / added keyword / type checker / call-recording wrapper), "
            "validators.create (with and without version, fresh metaschema id), Validator(schema, types={...}), "
            "checker.checks(name), FormatChecker.cls_checks(name), FormatChecker(), FormatChecker(formats=subset).  "
            "Every object gets a probe vector when created (is_type of 13 values x 9 names; error keys of 18 "
            "(schema, instance) pairs exercising types, formats, id vs $id resolution and overridable keywords; "
            "conforms on 8 values x 8 names) and after EVERY later operation every older object's vector must be "
            "unchanged; extend() with no change must equal its parent, an override must change that keyword only, a "
            "wrapper must change nothing.  One evaluation per (step, object probed).  Non-trivial: >= 2 derivations "
            "from the same parent followed by a probe of the parent or an older sibling.")
    ASSUMPTIONS = ["global registries and FormatChecker.checkers are snapshotted before and restored after each case"]
    GATES = {"op:extend_override": 50, "op:cls_checks": 50, "op:instance_types": 50, "op:redefine": 50,
             "op:create_versioned": 50}
    MIN_NONTRIVIAL = 100

    def strategy(self, tier):
        return cases()

    def check(self, case):
        res = Result()
        res.evals = 0
        steps = case.get("steps")
        if not isinstance(steps, list):
            res.excluded = "malformed"
            return res
        V = impl.validators
        js = impl.jsonschema
        FC = js.FormatChecker
        saved = (dict(V.validators), dict(V.meta_schemas.store), dict(FC.checkers))
        saved_draft = dict((d, dict(impl.DRAFT_CHECKERS[d].checkers)) for d in impl.DRAFTS)
        try:
            self.run(case, res, V, js, FC)
        finally:
            for d in impl.DRAFTS:
                impl.DRAFT_CHECKERS[d].checkers.clear()
                impl.DRAFT_CHECKERS[d].checkers.update(saved_draft[d])
            V.validators.clear()
            V.validators.update(saved[0])
            V.meta_schemas.store.clear()
            V.meta_schemas.store.update(saved[1])
            FC.checkers.clear()
            FC.checkers.update(saved[2])
        return res

    def run(self, case, res, V, js, FC):
        w = World()
        w.res = res
        for d, cls in impl.CLS.items():
            w.add("cls", cls, "Draft%dValidator" % d)
            w.add("tc", cls.TYPE_CHECKER, "draft%d_type_checker" % d)
            w.add("fc", impl.DRAFT_CHECKERS[d], "draft%d_format_checker" % d)
        w.add("fc", FC(), "FormatChecker()#0")
        w.add("val", impl.CLS[7]({"type": "integer", "minimum": 1}), "Draft7Validator instance")
        # an existing validator OBJECT whose schema refers to a URI nobody can resolve today: its resolver was
        # built before any later registration, so registering a class under that URI must not change its answer
        # (a NEW resolver would see the new registration: that is the documented registry, not claimed here)
        w.add("val", impl.CLS[4]({"properties": {"p": {"$ref": "http://verif.test/meta-fixed#"}}}),
              "Draft4Validator instance with an unresolvable reference")
        # ... and one that has not done anything yet: what it does when first used (after later registrations) must be
        # what its twin, used at once, did
        lazy_schema = {"properties": {"p": {"$ref": "http://verif.test/meta-fixed#"}}, "type": "object"}
        lazy = impl.CLS[7](copy.deepcopy(lazy_schema))
        lazy_expected = probe_validator(impl.CLS[7](copy.deepcopy(lazy_schema)))
        parents = {}
        legacy_classes = set()          # classes made with default_types (and their children): no type checker may be passed on
        fresh_ids = 0
        for n, st_ in enumerate(case["steps"]):
            try:
                op, on, name, fl = st_["op"], st_["on"], st_["name"], st_["flavour"]
            except Exception:
                res.excluded = "malformed-step"
                return
            if op in ("redefine", "redefine_many", "remove", "instance_types") and name not in SAFE_TYPE_NAMES + ["string"]:
                res.excluded = "type-name-outside-safe-set"
                return
            if op not in OPS or not isinstance(on, int) or not isinstance(fl, int) or not isinstance(name, str):
                res.excluded = "malformed-step"
                return
            res.labels.append("op:" + op)
            desc = "step %d %s(%s)" % (n, op, name)
            try:
                if op in ("redefine", "redefine_many", "remove"):
                    tc = w.pick("tc", on)
                    pvec = [o[3] for o in w.objs if o[1] is tc][0]
                    # the parent is used first (a checker that has already answered questions is the normal case)
                    probe_typechecker(tc)
                    if op == "redefine":
                        changes = {name: _tf(fl)}
                        new = tc.redefine(name, changes[name])
                    elif op == "redefine_many":
                        changes = {name: _tf(fl), "custom": _tf(fl + 1)}
                        new = tc.redefine_many(dict(changes))
                    else:
                        changes = {name: None}
                        try:
                            new = tc.remove(name)
                        except impl.exceptions.UndefinedTypeCheck:
                            res.labels.append("remove-unknown")
                            if "undefined" not in pvec[TYPE_NAMES.index(name) * len(TYPE_VALUES):][:1]:
                                res.fail(("remove-raises-for-known-type",), desc)
                            new = None
                    if new is not None:
                        w.add("tc", new, desc)
                        want = expected_typechecker(pvec, changes)
                        got = probe_typechecker(new)
                        if got != want:
                            idx = [i for i, (a, b) in enumerate(zip(got, want)) if a != b][:3]
                            res.fail(("derived-typechecker-differs-from-model", op),
                                     "%s: probe indices %r (type %r): got %r, model %r" % (
                                         desc, idx, TYPE_NAMES[idx[0] // len(TYPE_VALUES)], got[idx[0]], want[idx[0]]))
                        parents[id(tc)] = parents.get(id(tc), 0) + 1
                elif op == "retype_core":
                    # one of the names the keyword functions themselves rely on is redefined or removed on a DERIVED
                    # checker; the result is only asked questions directly (never handed to a class: that would be
                    # misuse) -- every other name must answer as before
                    if name not in CORE_TYPE_NAMES:
                        res.excluded = "malformed-step"
                        return
                    tc = w.pick("tc", on)
                    pvec = [o[3] for o in w.objs if o[1] is tc][0]
                    if fl == 3:
                        changes = {name: None}
                        try:
                            new = tc.remove(name)
                        except impl.exceptions.UndefinedTypeCheck:
                            new = None
                    else:
                        changes = {name: _tf(fl)}
                        new = tc.redefine(name, changes[name])
                    if new is not None:
                        want = expected_typechecker(pvec, changes)
                        try:
                            got = probe_typechecker(new)
                        except Exception as e:
                            res.fail(("derived-typechecker-raises", impl.tname(e)), "%s: %r" % (desc, e))
                            got = want
                        if got != want:
                            idx = [i for i, (a, b) in enumerate(zip(got, want)) if a != b][:3]
                            res.fail(("derived-typechecker-differs-from-model", op),
                                     "%s: type %r value %r: got %r, model %r" % (
                                         desc, TYPE_NAMES[idx[0] // len(TYPE_VALUES)], TYPE_VALUES[idx[0] % len(TYPE_VALUES)],
                                         got[idx[0]], want[idx[0]]))
                elif op == "extend_none":
                    c = w.pick("cls", on)
                    e = w.add("cls", V.extend(c), desc)
                    if probe_class(e) != probe_class(c):
                        res.fail(("extend-no-change-differs-from-parent",), desc)
                    parents[id(c)] = parents.get(id(c), 0) + 1
                elif op in ("extend_override", "extend_add"):
                    c = w.pick("cls", on)
                    k = name if op == "extend_override" else "marker"
                    e = w.add("cls", V.extend(c, {k: _marker_kw(str(n))}), desc)
                    self.only_that_keyword(res, c, e, k, desc)
                    parents[id(c)] = parents.get(id(c), 0) + 1
                elif op == "extend_wrap":
                    c = w.pick("cls", on)
                    k = name if name in c.VALIDATORS else ["type", "$ref", "if", "properties"][fl % 4]
                    if k in c.VALIDATORS:
                        orig = c.VALIDATORS[k]
                        calls = []

                        def wrapped(validator, value, instance, schema, _o=orig, _c=calls):
                            _c.append(1)
                            return _o(validator, value, instance, schema)
                        e = w.add("cls", V.extend(c, {k: wrapped}), desc)
                        if probe_class(e)[:-1] != probe_class(c)[:-1]:
                            res.fail(("extend-with-wrapper-differs-from-parent",), desc)
                elif op == "create_default_types":
                    # the deprecated way to say which Python types the JSON types are; such a class can still be
                    # extended (without a type checker), and its children are like it in everything else
                    import warnings
                    c = w.pick("cls", on)
                    meta = dict(c.META_SCHEMA)
                    fresh_ids += 1
                    idk = "$id" if "$id" in meta or "id" not in meta else "id"
                    meta[idk] = "http://verif.test/meta-dt-%d-%d" % (n, fresh_ids)
                    with warnings.catch_warnings():
                        warnings.simplefilter("ignore")
                        dt = V.create(meta_schema=meta, validators=dict(c.VALIDATORS), id_of=c.ID_OF, default_types={
                            "array": list, "boolean": bool, "integer": int, "null": type(None), "number": (int, float),
                            "object": dict, "string": str, "any": object})
                        w.add("cls", dt, desc)
                        legacy_classes.add(id(dt))
                        child = V.extend(dt)
                    legacy_classes.add(id(child))
                    w.add("cls", child, desc + " -> extend()")
                    if probe_class(child) != probe_class(dt):
                        res.fail(("extend-no-change-differs-from-parent", "default_types-parent"), desc)
                elif op == "extend_types" and id(w.pick("cls", on)) in legacy_classes:
                    res.labels.append("extend_types-on-legacy-class(skipped)")
                elif op == "extend_types":
                    c = w.pick("cls", on)
                    tc = w.pick("tc", on + fl)
                    # no class of these histories is created with the deprecated default_types argument, so
                    # extending with a type checker must always work (documented API)
                    e = w.add("cls", V.extend(c, type_checker=tc), desc)
                    if e.TYPE_CHECKER is not tc and probe_typechecker(e.TYPE_CHECKER) != probe_typechecker(tc):
                        res.fail(("extend-ignores-type-checker",), desc)
                    # everything that is not about types comes from the parent: where ids are read, the metaschema,
                    # the keyword table
                    pc, pe = probe_class(c), probe_class(e)
                    if pc[-3:] != pe[-3:]:
                        res.fail(("extend-with-type-checker-changes-something-else",),
                                 "%s: parent %r, child %r" % (desc, pc[-3:][0], pe[-3:][0]))
                elif op in ("create", "create_versioned"):
                    c = w.pick("cls", on)
                    meta = dict(c.META_SCHEMA)
                    fresh_ids += 1
                    idk = "$id" if "$id" in meta or "id" not in meta else "id"
                    if fl == 2:
                        meta[idk] = "http://verif.test/meta-fixed#"       # the URI one probe schema refers to
                    elif fl == 3 and op == "create_versioned":
                        # keeps the parent's (possibly bundled) id, but is a different metaschema
                        meta["properties"] = dict(meta.get("properties", {}), **{"x-only-here": {"type": "null"}})
                    else:
                        meta[idk] = "http://verif.test/meta-%d-%d" % (n, fresh_ids)
                    kw = dict(meta_schema=meta, validators=dict(c.VALIDATORS), type_checker=c.TYPE_CHECKER, id_of=c.ID_OF)
                    if fl % 2 == 1:
                        del kw["type_checker"]      # documented: a default type checker is then used
                    if op == "create_versioned":
                        kw["version"] = "verif %d" % n
                    w.add("cls", V.create(**kw), desc)
                    # the caller goes on to modify what it passed in: the new class must not notice
                    kw["validators"]["minimum"] = _marker_kw("caller-mutation")
                    kw["validators"].pop("maxLength", None)
                    meta["x-later"] = True
                elif op == "instance_types":
                    c = w.pick("cls", on)
                    # only re-bindings that keep the other keywords' assumptions intact (a user who maps
                    # "number" to str gets TypeErrors from minimum: that is misuse, not a defect)
                    pyt = [str, (int, float), type(None), list][fl % 4]
                    tmap = {"custom": pyt}
                    if name == "integer":
                        tmap["integer"] = (int, float)
                    elif name == "string":
                        tmap["string"] = (str, bytes)
                    v = c({"type": "custom" if name not in ("integer", "string") else name, "minimum": 1}, types=tmap)
                    # model: the class's own type checks, except for the names in the mapping, which become
                    # isinstance tests that keep booleans apart from numbers
                    def legacy(pytypes):
                        pytypes = pytypes if isinstance(pytypes, tuple) else (pytypes,)
                        return lambda chk, x: isinstance(x, pytypes) and not (isinstance(x, bool) and bool not in pytypes)
                    want_tc = expected_typechecker(probe_typechecker(c.TYPE_CHECKER),
                                                   dict((k, legacy(t)) for k, t in tmap.items()))
                    got_tc = probe_typechecker(v.TYPE_CHECKER)
                    if got_tc != want_tc:
                        i = [k for k, (a, b) in enumerate(zip(got_tc, want_tc)) if a != b][0]
                        res.fail(("types-argument-validator-differs-from-model",),
                                 "%s: type %r value %r: %r, expected %r (class checks overridden by the mapping only)" % (
                                     desc, TYPE_NAMES[i // len(TYPE_VALUES)], TYPE_VALUES[i % len(TYPE_VALUES)],
                                     got_tc[i], want_tc[i]))
                    w.add("val", v, desc)
                    # the mapping holds for the whole validation, also where a keyword asks "valid or not"
                    tname_ = "custom" if name not in ("integer", "string") else name
                    stock = dict((k, set(id(cc.VALIDATORS.get(k)) for cc in impl.CLS.values())) for k in ("type", "not", "disallow"))
                    untouched = all(k not in c.VALIDATORS or id(c.VALIDATORS[k]) in stock[k] for k in stock)
                    for val in ((1, 1.0, "a", None, [], True) if untouched else ()):     # histories may have overridden `type`
                        direct = bool(v.is_type(val, tname_))
                        for wname, mk in ((("not", lambda t: {"not": {"type": t}}),) if "not" in c.VALIDATORS else
                                          (("disallow", lambda t: {"disallow": [{"type": t}]}),) if "disallow" in c.VALIDATORS else ()):
                            try:
                                neg = c(mk(tname_), types=tmap).is_valid(val)
                            except Exception as e:
                                res.fail(("types-argument-under-verdict-keyword-raises", impl.tname(e)), "%s: %r" % (desc, e))
                                break
                            if neg != (not direct):
                                res.fail(("types-argument-not-honoured-under-verdict-keyword", wname),
                                         "%s: is_type(%r, %r)=%r but {%s: type} is_valid=%r" % (desc, val, tname_, direct, wname, neg))
                elif op == "checks":
                    fc = w.pick("fc", on)
                    # registering on an instance changes THAT instance: re-record it, nobody else may change
                    fc.checks(name)(_ff(fl))
                    # ... that one pool entry only: another entry that turns out to be the same object (two
                    # public names aliasing one checker) then shows up as changed
                    pool = [o for o in w.objs if o[0] == "fc"]
                    chosen = pool[on % len(pool)]
                    chosen[3] = chosen[2](fc)
                elif op == "cls_checks":
                    FC.cls_checks("custom-cls-%d" % (fl % 2))(_ff(fl))
                    after = FC()
                    if ("custom-cls-%d" % (fl % 2)) not in after.checkers:
                        res.fail(("cls_checks-not-visible-to-later-instances",), desc)
                    w.add("fc", after, desc + " -> FormatChecker()")
                elif op == "fc_new":
                    w.add("fc", FC(), desc)
                elif op == "fc_subset":
                    names = [x for x in (name, "ipv4", "date") if x in FC.checkers][:2]
                    sub = w.add("fc", FC(formats=names), desc)
                    if sorted(sub.checkers) != sorted(set(names)):
                        res.fail(("formats-subset-not-honoured",), "%s: asked %r got %r" % (desc, names, sorted(sub.checkers)))
            except Exception as e:
                res.fail(("operation-raises", op, impl.tname(e)), "%s raised %r" % (desc, e))
                return
            before = len(res.failures)
            w.recheck(res, desc)
            res.evals += len(w.objs)
            if len(res.failures) > before:
                return
        got = probe_validator(lazy)
        if got != lazy_expected:
            idx = [i for i, (a, b) in enumerate(zip(got, lazy_expected)) if a != b][:2]
            res.fail(("unused-validator-object-changed",), "a validator created before the history and first used after "
                     "it: probe indices %r, %r instead of %r" % (idx, str(got[idx[0]])[:100], str(lazy_expected[idx[0]])[:100]))
        res.nontrivial = any(v >= 2 for v in parents.values()) or len(case["steps"]) >= 4
        return

    def only_that_keyword(self, res, parent, child, k, desc):
        """On flat probe schemas: errors of keywords other than k equal the parent's, errors of k are the marker's."""
        for s, x in PROBE_PAIRS:
            if "properties" in s or "items" in s:
                continue            # flat probe schemas only: no applicator whose verdict may change with k
            try:
                pe = [e for e in parent(copy.deepcopy(s)).iter_errors(x)]
                ce = [e for e in child(copy.deepcopy(s)).iter_errors(x)]
            except impl.exceptions.UnknownType:
                continue
            po = sorted(impl.errkey(e) for e in pe if list(e.schema_path)[0] != k)
            co = sorted(impl.errkey(e) for e in ce if list(e.schema_path)[0] != k)
            if po != co:
                res.fail(("override-changes-other-keywords", k), "%s on schema %s instance %s" % (desc, impl.cj(s), impl.cj(x)))
            mine = [e for e in ce if list(e.schema_path)[0] == k]
            if k in s:
                if len(mine) != 1 or not mine[0].message.startswith("marker"):
                    res.fail(("override-not-used", k), "%s on schema %s: %r" % (desc, impl.cj(s), [e.message for e in mine]))
            elif mine:
                res.fail(("override-fires-without-keyword", k), desc)


PROP = C16()
