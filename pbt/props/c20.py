"""C20 — the draft is chosen from $schema, consistently in validate(), CLI and helpers
(reference model of the registry + behavioural differential + registration histories)."""
import copy
import io
import json
import os
import shutil
import tempfile
import warnings

from hypothesis import strategies as st

from .. import impl
from ..harness import Prop, Result

IDS = {3: "http://json-schema.org/draft-03/schema#", 4: "http://json-schema.org/draft-04/schema#",
       6: "http://json-schema.org/draft-06/schema#", 7: "http://json-schema.org/draft-07/schema#"}
UNKNOWN = ["http://json-schema.org/draft-05/schema#", "http://json-schema.org/draft-08/schema#",
           "https://json-schema.org/draft/2019-09/schema", "https://json-schema.org/draft/2020-12/schema",
           "http://example.com/my-schema#", "urn:my:schema", "not a uri", "", "draft7", "Draft7Validator",
           "http://json-schema.org/draft-07/schema#/definitions/x", "http://json-schema.org/schema#",
           "https://json-schema.org/draft-07/schema#", "http://json-schema.org/draft-07/schema?x=1",
           "http://json-schema.org/draft-07/schema/", "http://json-schema.org/draft-07/schem",
           "http://json-schema.org/draft-04/schema#/definitions/x", "http://json-schema.org/draft-03/schema?x=1",
           "http://json-schema.org/draft-06/schema/", "http://json-schema.org/draft-04/schemata",
           "http://json-schema.org/draft-04/schem", "http://json-schema.org/draft-03/schema#x",
           "xhttp://json-schema.org/draft-04/schema#"]
# schemas x instances on which the drafts disagree
DISCRIMINATING = [
    ({"minimum": 1, "exclusiveMinimum": True}, [1, 2, 0]),            # boolean flag (3/4) vs ignored-or-crash (6/7 numeric)
    ({"exclusiveMinimum": 1}, [1, 2, 0]),                             # numeric (6/7) vs inert (3/4)
    ({"type": "integer"}, [1.0, 1, 1.5]),                             # integer-valued floats
    ({"const": 1}, [1, 2]), ({"contains": {"type": "string"}}, [[1], ["a"], []]),
    ({"if": {"type": "string"}, "then": {"maxLength": 1}}, ["ab", "a", 1]),
    ({"properties": {"a": False}}, [{"a": 1}, {}]), ({"items": [True, False]}, [[1], [1, 2]]),
    ({"propertyNames": {"maxLength": 1}}, [{"ab": 1}, {"a": 1}]),
    ({"properties": {"a": {"required": True}}}, [{}, {"a": 1}]),    # draft 3 required
    ({"required": ["a"]}, [{}, {"a": 1}]), ({"divisibleBy": 2}, [3, 4]), ({"multipleOf": 2}, [3, 4]),
    ({"extends": {"type": "string"}}, [1, "a"]), ({"disallow": "string"}, [1, "a"]),
    ({"allOf": [{"type": "string"}]}, [1, "a"]), ({"type": "any"}, [1]),
    ({"dependencies": {"a": "b"}}, [{"a": 1}, {"a": 1, "b": 2}]),
    ({"id": "http://ex.test/d/", "properties": {"p": {"$ref": "t.json"}}}, [{"p": 1}, {"p": "s"}]),
    ({"$id": "http://ex.test/d/", "properties": {"p": {"$ref": "t.json"}}}, [{"p": 1}, {"p": "s"}]),
    (True, [1, "a"]), (False, [1, "a"]),        # schemas in drafts 6/7, not schemas at all in drafts 3/4
    # a local reference below a root id: resolvable without any store, by whichever class reads that id keyword
    ({"id": "http://ex.test/d/s.json", "definitions": {"x": {"type": "string"}}, "properties": {"p": {"$ref": "#/definitions/x"}}},
     [{"p": 1}, {"p": "s"}]),
    ({"$id": "http://ex.test/d/s.json", "definitions": {"x": {"type": "string"}}, "properties": {"p": {"$ref": "#/definitions/x"}}},
     [{"p": 1}, {"p": "s"}]),
]


@st.composite
def cases(draw):
    mode = draw(st.sampled_from(["select", "select", "behaviour", "behaviour", "cli", "registry"]))
    if mode == "select":
        kind = draw(st.sampled_from(["known", "known-nohash", "absent", "boolean", "unknown", "non-string"]))
        d = draw(st.sampled_from(impl.DRAFTS))
        if kind == "known":
            sch = {"$schema": IDS[d]}
        elif kind == "known-nohash":
            sch = {"$schema": IDS[d][:-1]}
        elif kind == "absent":
            sch = {"type": "string"}
        elif kind == "boolean":
            sch = draw(st.booleans())
        elif kind == "unknown":
            sch = {"$schema": draw(st.sampled_from(UNKNOWN))}
        else:
            sch = {"$schema": draw(st.sampled_from(UNKNOWN))}
            kind = "unknown"
        if isinstance(sch, dict):
            sch.update(draw(st.sampled_from([{}, {"type": "object"}, {"minimum": 1}])))
        default = draw(st.sampled_from([None, 3, 4, 6, 7]))
        return {"mode": mode, "schema": sch, "default": default, "kind": kind}
    if mode in ("behaviour", "cli"):
        i = draw(st.integers(0, len(DISCRIMINATING) - 1))
        d = draw(st.sampled_from(impl.DRAFTS))
        spelling = draw(st.sampled_from(["hash", "nohash", "absent", "unknown"]))
        explicit = draw(st.sampled_from([None, None, 3, 4, 6, 7]))
        return {"mode": mode, "pair": i, "draft": d, "spelling": spelling, "explicit": explicit,
                "unknown": draw(st.sampled_from(UNKNOWN))}
    steps = []
    for _ in range(draw(st.integers(1, 6))):
        steps.append({"how": draw(st.sampled_from(["validates", "create-version", "create-noversion", "extend-version",
                                                    "validates-after-meta-swap"])),
                      "base": draw(st.sampled_from(impl.DRAFTS)),
                      "id": draw(st.sampled_from(["http://verif.test/meta-a#", "http://verif.test/meta-b",
                                                  "http://verif.test/meta-c#", IDS[4], "urn:verif:meta",
                                                  # spellings the registry's key normalisation changes
                                                  "HTTP://verif.test/meta-d#", "http://verif.test/meta-e?"])),
                      "idkw": draw(st.sampled_from(["$id", "id"])),
                      # (a version called "draft4" yields a class NAMED Draft4Validator: still not jsonschema.Draft4Validator)
                      "version": draw(st.sampled_from(["verif-a", "verif-b", "verif-a", None, "draft4", "draft7"]))})
    return {"mode": mode, "steps": steps}


def select(schema, default=None):
    """(class, warned?)"""
    with warnings.catch_warnings(record=True) as w:
        warnings.simplefilter("always")
        if default is None:
            c = impl.validators.validator_for(schema)
        else:
            c = impl.validators.validator_for(schema, default=default)
    return c, any(issubclass(x.category, DeprecationWarning) for x in w)


def outcome(f):
    try:
        f()
        return ("ok",)
    except impl.exceptions.ValidationError as e:
        return ("ValidationError", e.message, str(e.validator), impl.cj(list(e.absolute_path)))
    except impl.exceptions.SchemaError as e:
        return ("SchemaError", e.message)
    except impl.exceptions.RefResolutionError:
        return ("RefResolutionError",)
    except impl.exceptions.UnknownType:
        return ("UnknownType",)
    except Exception as e:
        return ("raises", impl.tname(e))


class C20(Prop):
    ID = "C20"
    QUICK = 2500
    THOROUGH = 8000
    RULE = ("modes: select — validator_for on every $schema spelling (each registered id with / without '#', absent, "
            "boolean schema, 16 unknown or near-miss strings) with / without default= against a table model, incl. the "
            "DeprecationWarning; behaviour — 20 (schema, instances) families on which the drafts disagree, run through "
            "jsonschema.validate with the class selected by $schema (or given explicitly, which must win) and compared "
            "with the selected class used directly, plus a check that the drafts really disagree on the family; cli — "
            "the same through the command line with / without --validator; registry — histories of 1-6 registrations "
            "(validates(), create(version=), create without version, extend(version=)) with fresh or clashing "
            "metaschema ids, looking up every id after every step against the model.  Non-trivial: behaviour case where "
            ">= 2 drafts give different outcomes, an unknown spelling, or a history with >= 2 registrations.")
    ASSUMPTIONS = ["near-miss spellings are judged by the documented rule (exact id or id without an empty fragment); "
                   "the global registries are snapshotted and restored around each case"]
    GATES = {"mode:select": 500, "mode:behaviour": 500, "mode:cli": 200, "mode:registry": 200, "drafts-disagree": 300,
             "explicit-class": 100, "warned": 100}
    MIN_NONTRIVIAL = 300

    def strategy(self, tier):
        return cases()

    def check(self, case):
        res = Result()
        mode = case.get("mode")
        if mode not in ("select", "behaviour", "cli", "registry"):
            res.excluded = "malformed"
            return res
        res.labels.append("mode:" + mode)
        V = impl.validators
        saved = (dict(V.validators), dict(V.meta_schemas.store))
        try:
            getattr(self, "check_" + mode)(case, res)
        except (KeyError, TypeError, IndexError, AttributeError) as e:
            import traceback
            tb = traceback.extract_tb(e.__traceback__)
            if tb and "/pbt/" in tb[-1].filename:
                res.excluded = "malformed"
            else:
                raise
        finally:
            V.validators.clear()
            V.validators.update(saved[0])
            V.meta_schemas.store.clear()
            V.meta_schemas.store.update(saved[1])
        return res

    # ---- table model of selection -------------------------------------------------------------------
    def model(self, schema, default, table=None):
        """(class, warn)"""
        table = table or dict((IDS[d], impl.CLS[d]) for d in impl.DRAFTS)
        latest = impl.CLS[7]
        dflt = latest if default is None else default
        if isinstance(schema, bool) or "$schema" not in schema:
            return dflt, False
        s = schema["$schema"]
        for rid, c in table.items():
            if s == rid or (rid.endswith("#") and s == rid[:-1]) or (not rid.endswith("#") and s == rid + "#"):
                return c, False
        return latest, True

    def check_select(self, case, res):
        schema = case["schema"]
        default = impl.CLS[case["default"]] if case.get("default") else None
        want, warn = self.model(schema, default)
        try:
            got, warned = select(copy.deepcopy(schema), default)
        except Exception as e:
            res.fail(("selection-raises", impl.tname(e)), "validator_for(%s) raised %r" % (impl.cj(schema), e))
            return
        if got is not want:
            res.fail(("selection", case.get("kind", "?")), "schema=%s default=%r: selected %s, model %s" % (
                impl.cj(schema), case.get("default"), got.__name__, want.__name__))
        if warned != warn:
            res.fail(("deprecation-warning", "missing" if warn else "spurious"), "schema=%s" % impl.cj(schema))
        if warn:
            res.labels.append("warned")
        res.nontrivial = True

    def family(self, case):
        schema, xs = DISCRIMINATING[case["pair"] % len(DISCRIMINATING)]
        schema = copy.deepcopy(schema)
        if isinstance(schema, bool):
            return schema, xs               # nowhere to say which draft is meant
        sp = case["spelling"]
        d = case["draft"]
        if sp == "hash":
            schema["$schema"] = IDS[d]
        elif sp == "nohash":
            schema["$schema"] = IDS[d][:-1]
        elif sp == "unknown":
            schema["$schema"] = case["unknown"]
        return schema, xs

    def check_behaviour(self, case, res):
        schema, xs = self.family(case)
        explicit = impl.CLS[case["explicit"]] if case.get("explicit") else None
        want_cls, _ = self.model(schema, None)
        sel = explicit or want_cls
        if explicit:
            res.labels.append("explicit-class")
        store = {"http://ex.test/d/t.json": {"type": "string"}, "t.json": {"type": "integer"}}
        per_draft = {}
        for x in xs:
            res.evals += 1

            def direct(c=sel):
                c.check_schema(schema)
                if isinstance(schema, bool):
                    err = impl.exceptions.best_match(c(schema).iter_errors(copy.deepcopy(x)))
                    if err is not None:
                        raise err
                    return
                r = impl.validators.RefResolver.from_schema(copy.deepcopy(schema), id_of=c.ID_OF, store=copy.deepcopy(store))
                err = impl.exceptions.best_match(c(copy.deepcopy(schema), resolver=r).iter_errors(copy.deepcopy(x)))
                if err is not None:
                    raise err

            def via_validate():
                kw = {"cls": explicit} if explicit else {}
                with warnings.catch_warnings():
                    warnings.simplefilter("ignore")
                    c = explicit or impl.validators.validator_for(schema)
                    if isinstance(schema, bool):
                        impl.jsonschema.validate(copy.deepcopy(x), schema, **kw)
                        return
                    r = impl.validators.RefResolver.from_schema(copy.deepcopy(schema), id_of=c.ID_OF, store=copy.deepcopy(store))
                    impl.jsonschema.validate(copy.deepcopy(x), copy.deepcopy(schema), resolver=r, **kw)
            a, b = outcome(direct), outcome(via_validate)
            if a != b:
                res.fail(("validate-differs-from-selected-class", "explicit" if explicit else case["spelling"]),
                         "schema=%s instance=%s: %s used directly -> %r, jsonschema.validate -> %r" % (
                             impl.cj(schema), impl.cj(x), sel.__name__, a[:2], b[:2]))
            for d, c in impl.CLS.items():
                per_draft.setdefault(d, []).append(outcome(lambda c=c: direct(c))[0])
        if len(set(map(tuple, per_draft.values()))) >= 2:
            res.labels.append("drafts-disagree")
            res.nontrivial = True

    def check_cli(self, case, res):
        from jsonschema import cli
        schema, xs = self.family(case)
        if "t.json" in impl.cj(schema):
            res.excluded = "cli-family-with-ref"        # needs a store the command line cannot be given
            return
        explicit = case.get("explicit")
        want_cls, _ = self.model(schema, None)
        sel = impl.CLS[explicit] if explicit else want_cls
        if explicit:
            res.labels.append("explicit-class")
        tmp = tempfile.mkdtemp(prefix="c20_")
        try:
            sp = os.path.join(tmp, "schema.json")
            json.dump(schema, open(sp, "w"))
            argv = []
            for i, x in enumerate(xs):
                p = os.path.join(tmp, "i%d.json" % i)
                json.dump(x, open(p, "w"))
                argv += ["-i", p]
            if explicit:
                argv += ["--validator", "Draft%dValidator" % explicit]
            argv += ["--error-format", "\x01{error.message}\x02", sp]
            out, err = io.StringIO(), io.StringIO()
            res.evals += 1
            with warnings.catch_warnings():
                warnings.simplefilter("ignore")
                try:
                    rc = cli.run(cli.parse_args(argv), stdout=out, stderr=err, stdin=io.StringIO(""))
                except Exception as e:
                    rc = ("raises", impl.tname(e))
            try:
                sel.check_schema(schema)
                want = "".join("\x01%s\x02" % e.message for x in xs for e in sel(copy.deepcopy(schema)).iter_errors(x))
                want_rc = bool(want)
            except impl.exceptions.SchemaError as e:
                want, want_rc = "\x01%s\x02" % e.message, True
            except Exception as e:
                want, want_rc = None, ("raises", impl.tname(e))
            if isinstance(want_rc, tuple) or isinstance(rc, tuple):
                if (rc if isinstance(rc, tuple) else None) != (want_rc if isinstance(want_rc, tuple) else None):
                    res.fail(("cli-differs-from-selected-class", "exception"), "%r vs %r; schema=%s" % (rc, want_rc, impl.cj(schema)))
            elif err.getvalue() != want or bool(rc) != want_rc:
                res.fail(("cli-differs-from-selected-class", "explicit" if explicit else case["spelling"]),
                         "schema=%s: CLI stderr %r rc=%r; %s directly %r" % (
                             impl.cj(schema), err.getvalue()[:200], rc, sel.__name__, (want or "")[:200]))
        finally:
            shutil.rmtree(tmp, ignore_errors=True)
        res.nontrivial = True
        res.labels.append("drafts-disagree")

    def check_registry(self, case, res):
        V = impl.validators
        table = dict((IDS[d], impl.CLS[d]) for d in impl.DRAFTS)
        names = dict(V.validators)
        for n, st_ in enumerate(case["steps"]):
            res.evals += 1
            base = impl.CLS[st_["base"]]
            meta = dict(base.META_SCHEMA)
            meta.pop("id", None)
            meta.pop("$id", None)
            own_idkw = "id" if st_["base"] <= 4 else "$id"
            meta[st_["idkw"]] = st_["id"]
            registered_id = st_["id"] if st_["idkw"] == own_idkw else ""
            how = st_["how"]
            # version names are reused on purpose: re-registering a NAME must not disturb the ids registered before
            version = st_.get("version") or "verif-%d" % n
            if how == "validates":
                new = V.create(meta_schema=meta, validators=dict(base.VALIDATORS), type_checker=base.TYPE_CHECKER,
                               id_of=base.ID_OF)
                new = V.validates(version)(new)
                reg = True
            elif how == "validates-after-meta-swap":
                # the route the documentation of extend() prescribes for a dialect with a metaschema of its own: derive,
                # assign META_SCHEMA, then register -- under the id the class has NOW
                new = V.extend(base)
                new.META_SCHEMA = meta
                new = V.validates(version)(new)
                reg = True
            elif how == "create-version":
                new = V.create(meta_schema=meta, validators=dict(base.VALIDATORS), type_checker=base.TYPE_CHECKER,
                               id_of=base.ID_OF, version=version)
                reg = True
            elif how == "extend-version":
                holder = V.create(meta_schema=meta, validators=dict(base.VALIDATORS), type_checker=base.TYPE_CHECKER,
                                  id_of=base.ID_OF)
                new = V.extend(holder, version=version)
                reg = True
            else:
                new = V.create(meta_schema=meta, validators=dict(base.VALIDATORS), type_checker=base.TYPE_CHECKER,
                               id_of=base.ID_OF)
                reg = False
            if reg:
                names[version] = new
                if registered_id:
                    # a later registration under an id that normalises to an existing key replaces it
                    for rid in list(table):
                        if rid.rstrip("#") == registered_id.rstrip("#"):
                            del table[rid]
                    table[registered_id] = new
            if dict(V.validators) != names:
                res.fail(("registry", "names-table"), "after step %d %r: %r vs model %r" % (
                    n, st_, sorted(V.validators), sorted(names)))
                return
            for rid in list(table) + ["http://verif.test/never-registered#", ""]:
                for spelling in ((rid, rid.rstrip("#"), rid.rstrip("#") + "#") if rid else ("", "#")):
                    want, warn = self.model({"$schema": spelling}, None, table)
                    got, warned = select({"$schema": spelling})
                    if got is not want or warned != warn:
                        res.fail(("registry", "lookup-after-registration"),
                                 "after step %d %r: $schema=%r selects %s (warned=%r), model %s (warn=%r)" % (
                                     n, st_, spelling, got.__name__, warned, want.__name__, warn))
                        return
            # a resolver built NOW knows, for every registered id, the metaschema of the class registered under it now
            fresh = V.RefResolver("", {})
            for rid, c_ in table.items():
                try:
                    doc = fresh.store[rid]
                except KeyError:
                    res.fail(("registry", "new-resolver-lacks-registered-metaschema"), "after step %d %r: %r" % (n, st_, rid))
                    return
                if impl.cj(doc) != impl.cj(c_.META_SCHEMA):
                    res.fail(("registry", "new-resolver-has-a-stale-metaschema"),
                             "after step %d %r: a resolver built now serves, for %r, a document that is not the META_SCHEMA "
                             "of %s" % (n, st_, rid, c_.__name__))
                    return
            # the command line's --validator takes a name: a bare one means the attribute of the jsonschema package
            from jsonschema import cli
            for d in impl.DRAFTS:
                try:
                    got = cli.parse_args(["--validator", "Draft%dValidator" % d, "schema.json"])["validator"]
                except BaseException as e:
                    res.fail(("registry", "cli-validator-name-raises", impl.tname(e)), "after step %d %r" % (n, st_))
                    return
                if got is not impl.CLS[d]:
                    res.fail(("registry", "cli-validator-name-captured"),
                             "after step %d %r: --validator Draft%dValidator designates %r from module %s" % (
                                 n, st_, d, got, getattr(got, "__module__", "?")))
                    return
        res.nontrivial = len(case["steps"]) >= 2


PROP = C20()
