"""C02 — $ref is transparent: a reference behaves as the schema it designates.
Oracle A (metamorphic): errors == errors of the reference-free expansion (instance locations + keywords).
Oracle B (reference model): verdict == O-SPEC with an independent RFC 3986 / RFC 6901 resolver."""
import copy

from hypothesis import strategies as st

from .. import impl
from ..gen import worlds as GW
from ..harness import Prop, Result
from ..oracle import spec


def lockeys(errors, prefix=()):
    """Recursive multiset of (absolute instance path, keyword) over errors and their contexts."""
    out = []
    for e in errors:
        p = tuple(prefix) + tuple(e.path)
        out.append((impl.cj(list(p)), str(e.validator), tuple(lockeys(e.context, p))))
    return tuple(sorted(out))


class C02(Prop):
    ID = "C02"
    QUICK = 1100
    THOROUGH = 12000
    RULE = ("case = reference world: root schema with definitions under hostile names, 0-3 external documents (in the "
            "store, behind a counting handler, or missing), references generated from (document, token path) targets "
            "and rendered as fragment-only / absolute / relative strings with random optional percent-encoding, placed "
            "at any applicator position, in chains, recursively (below instance-descending applicators), with ignored "
            "siblings, under root ids (with/without trailing #) and nested absolute/relative ids; 3 instances.  Oracle "
            "A: the multiset of (absolute instance path, keyword, context recursively) equals that of the "
            "reference-free expansion built with an independent RFC 3986/6901 resolver; oracle B: the verdict equals "
            "O-SPEC's.  Non-trivial: O-SPEC traversed >= 1 reference for the instance.")
    ASSUMPTIONS = ["targets reachable only through an embedded id, store documents whose id differs from their URI, "
                   "Draft 3 required behind a reference are excluded by construction (as the property says)",
                   "O-URI implements RFC 3986 section 5.2; O-PTR RFC 6901"]
    GATES = {"hostile-name": 200, "ref:relative": 100, "ref:fragment-only": 300, "ref:absolute": 100,
             "remote:store": 100, "remote:store#": 30, "remote:handler": 100, "remote:missing": 30, "chain": 100, "nested-id": 40,
             "sibling-ignored": 100, "remote-internal-ref:fragment-only": 50, "remote-internal-ref:relative": 20, "root-id-trailing-#": 50, "recursive-definition": 50, "traversed>=2": 300}
    MIN_NONTRIVIAL = 300

    def strategy(self, tier):
        return GW.worlds()

    def check(self, case):
        res = Result()
        res.evals = 0
        ok, why = GW.wellformed(case)
        if not ok and why.startswith("check_schema-raises:"):
            # the metaschemas are schemas with references of their own ("#", "#/definitions/..."): applying one
            # to a well-typed document must not fail for a reason of its own
            res.fail(("metaschema-cannot-be-applied", why.split(":")[1]),
                     "check_schema of a world document raised %s" % why.split(":")[1])
            return res
        if not ok:
            res.excluded = why
            return res
        d = case["draft"]
        cls = impl.CLS[d]
        for lab in case.get("classes", []):
            res.labels.append(lab)
        self.static_resolution(case, res, d)
        if res.failures:
            return res
        for x in GW.instances_of(case):
            res.evals += 1
            # ---- oracle B: O-SPEC verdict with its own resolver
            ctx = spec.Ctx(d, resolver=GW.oracle_resolver(case))
            try:
                want = spec.valid(ctx, case["root"], x, GW.root_uri(case))
                want_exc = None
            except spec.Unresolvable:
                want, want_exc = None, "unresolvable"
            except (spec.Unsupported, RecursionError) as e:
                res.excluded = "oracle-unsupported:%s" % str(e)[:40]
                continue
            if ctx.inexact:
                res.excluded = "C09-outside-exact-domain"
                continue
            try:
                v = GW.build_validator(case)
                errs = list(v.iter_errors(copy.deepcopy(x)))
                got, got_exc = not errs, None
            except impl.exceptions.RefResolutionError as e:
                errs, got, got_exc = None, None, "unresolvable"
            except RecursionError:
                res.excluded = "non-terminating-recursion"
                continue
            except Exception as e:
                res.fail(("raises", impl.tname(e)), "instance=%s: %r" % (impl.cj(x)[:200], e))
                continue
            if ctx.refs:
                res.nontrivial = True
                if ctx.refs >= 2:
                    res.labels.append("traversed>=2")
            if want_exc or got_exc:
                if want_exc != got_exc:
                    # evaluation order decides whether an unresolvable reference is met (iter_errors runs every
                    # keyword, the oracle stops at the first failing one): the implementation may only raise
                    # if SOME reference of the world does not resolve
                    if got_exc and not want_exc and not GW.static_unresolvable(case):
                        res.fail(("resolution", "impl-cannot-resolve"),
                                 "instance=%s: implementation raised RefResolutionError, oracle resolves every "
                                 "reference it meets (verdict %s); refs met: %r" % (impl.cj(x)[:200], want, ctx.ref_log[:6]))
                    else:
                        res.labels.append("oracle-unresolvable-impl-lazy")
                continue
            if got != want:
                res.fail(("verdict", "impl-accepts" if got else "impl-rejects"),
                         "instance=%s: O-SPEC says %s; refs met: %r; impl errors: %r" % (
                             impl.cj(x)[:200], "valid" if want else "invalid", ctx.ref_log[:6],
                             [(list(e.absolute_path), e.validator) for e in errs][:4]))
                continue
            # ---- oracle A: expansion
            try:
                flat = GW.expand(case, GW.depth(x))
            except (GW.Inexpandable, spec.Unresolvable, spec.Unsupported, optr_error()) as e:
                res.labels.append("inexpandable")
                continue
            try:
                cls.check_schema(flat)
                ferrs = list(cls(flat).iter_errors(copy.deepcopy(x)))
            except Exception as e:
                res.labels.append("expansion-unusable:" + impl.tname(e))
                continue
            a, b = lockeys(errs), lockeys(ferrs)
            if a != b:
                res.fail(("locations-differ-from-expansion",),
                         "instance=%s\n with refs: %r\n expansion: %r\n expansion=%s" % (
                             impl.cj(x)[:200], a[:6], b[:6], impl.cj(flat)[:600]))
            res.labels.append("valid" if got else "invalid")
        return res

    def static_resolution(self, case, res, d):
        """Every reference string of the root document, resolved under the base in effect at its position: the
        implementation's resolver and the independent one must designate the same value, or both nothing.
        (Independent of evaluation order, so it also sees references that wrongly DO resolve.)"""
        from ..gen import walk
        from ..oracle import uri as ouri
        idkw = impl.IDKW[d]
        oracle = GW.oracle_resolver(case)
        todo = []

        def go(sub, base, depth):
            if not isinstance(sub, dict) or depth > 40:
                return
            if isinstance(sub.get("$ref"), str):
                todo.append((base, sub["$ref"]))
                return
            sid = sub.get(idkw)
            if isinstance(sid, str) and sid:
                base = ouri.join(base, sid)
            for _, child in walk.children(d, sub):
                go(child, base, depth + 1)
        go(case["root"], GW.root_uri(case), 0)
        if not todo:
            return
        try:
            v = GW.build_validator(case)
        except Exception:
            return
        seen = set()
        for base, ref in todo[:12]:
            if (base, ref) in seen:
                continue
            seen.add((base, ref))
            res.evals += 1
            try:
                _, want = oracle.resolve(base, ref)
                want_ok = True
            except (spec.Unresolvable, optr_error()):
                want, want_ok = None, False
            except Exception:
                continue
            v.resolver.push_scope(base)
            try:
                _, got = v.resolver.resolve(ref)
                got_ok = True
            except impl.exceptions.RefResolutionError:
                got, got_ok = None, False
            except Exception as e:
                res.fail(("static-resolution", "raises", impl.tname(e)), "resolve(%r) under base %r: %r" % (ref, base, e))
                continue
            finally:
                v.resolver.pop_scope()
            if want_ok != got_ok:
                res.fail(("static-resolution", "impl-resolves-what-designates-nothing" if got_ok else "impl-cannot-resolve"),
                         "reference %r under base %r: implementation %s, independent resolver %s" % (
                             ref, base, "-> " + impl.cj(got)[:100] if got_ok else "RefResolutionError",
                             "-> " + impl.cj(want)[:100] if want_ok else "designates nothing"))
            elif got_ok and impl.cj(got) != impl.cj(want):
                res.fail(("static-resolution", "other-target"), "reference %r under base %r: implementation -> %s, "
                         "independent resolver -> %s" % (ref, base, impl.cj(got)[:150], impl.cj(want)[:150]))
            if not want_ok:
                res.labels.append("static:designates-nothing")

    def focus(self, case, bucket):
        for x in case["instances"]:
            yield dict(case, instances=[x])


def optr_error():
    from ..oracle import pointer
    return pointer.PointerError


PROP = C02()
