"""C10 — unknown, annotation and other-draft keywords never affect validation (metamorphic: insertion)."""
import collections
import copy

from hypothesis import strategies as st

from .. import impl
from ..gen import instances as GI, schemas as GS, values as V, walk, worlds as GW
from ..harness import Prop, Result

ANNOTATIONS = ["title", "description", "default", "examples", "$comment", "definitions", "$defs", "readOnly",
               "writeOnly", "contentMediaType", "contentEncoding", "$schema", "deprecated"]
LATER = ["unevaluatedProperties", "unevaluatedItems", "dependentRequired", "dependentSchemas", "prefixItems",
         "minContains", "maxContains", "$defs", "$anchor", "$dynamicRef", "$dynamicAnchor", "$recursiveRef", "$vocabulary"]
UNKNOWN = ["x-foo", "", "Type", "TYPE", "min", "items ", "propertys", "\U0001F600", "$Ref", "ref", "nullable",
           "discriminator", "example"]
# values that would reject (almost) everything if the keyword were honoured with its own draft's meaning
HOT = {
    "const": ["\u0000never"], "contains": [False, {"not": {}}, {"type": "null"}], "propertyNames": [False, {"maxLength": 0}],
    "if": [{}, True], "then": [False, {"not": {}}], "else": [False], "allOf": [[False], [{"not": {}}], [{"type": "null"}, {"type": "string"}]],
    "anyOf": [[False], [{"not": {}}]], "oneOf": [[True, True], [{}, {}], [False]], "not": [{}, True],
    "extends": [{"type": "null"}, [{"type": "null"}, {"type": "string"}], {"disallow": "any"}], "disallow": ["any", ["any"]],
    "divisibleBy": [7.5], "multipleOf": [7.5], "minProperties": [99], "maxProperties": [0], "required": [["\u0000zz"]],
    "exclusiveMinimum": [10 ** 9], "exclusiveMaximum": [-10 ** 9], "dependencies": [{"a": ["\u0000zz"], "b": ["\u0000zz"], "": ["\u0000zz"], "k": ["\u0000zz"], "c": ["\u0000zz"]}],
    "unevaluatedProperties": [False], "unevaluatedItems": [False], "prefixItems": [[False]], "minContains": [99], "maxContains": [0], "$defs": [{"x": False, "a": False}],
    "dependentRequired": [{"a": ["\u0000zz"]}], "dependentSchemas": [{"a": False}], "nullable": [False],
    "type": ["null"], "enum": [[]], "minimum": [10 ** 9], "maxLength": [0], "maxItems": [0], "pattern": ["^\u0000$"],
}
ALL_TABLE_NAMES = None
PARTNERS = {"minContains": "contains", "maxContains": "contains", "then": "if", "else": "if", "exclusiveMinimum": "minimum",
            "exclusiveMaximum": "maximum", "unevaluatedItems": "items", "unevaluatedProperties": "properties", "prefixItems": "items",
            "dependentRequired": "dependencies", "dependentSchemas": "dependencies", "$defs": "definitions",
            "propertyNames": "properties", "contains": "items", "const": "enum", "divisibleBy": "multipleOf",
            "multipleOf": "divisibleBy", "extends": "allOf", "disallow": "type", "required": "properties"}


def foreign_names(d):
    global ALL_TABLE_NAMES
    from ..oracle import spec
    if ALL_TABLE_NAMES is None:
        # the vocabularies come from the specifications (O-SPEC's tables), never from the code under test
        ALL_TABLE_NAMES = sorted(set(k for dd in spec.KW for k in spec.KW[dd]))
    own = set(spec.KW[d]) | {"$ref"}
    consulted = {3: {"exclusiveMinimum", "exclusiveMaximum", "required"}, 4: {"exclusiveMinimum", "exclusiveMaximum"},
                 6: set(), 7: {"then", "else"}}[d]
    other_id = "$id" if d <= 4 else "id"
    names = [n for n in ALL_TABLE_NAMES + ["then", "else"] if n not in own and n not in consulted and n != "$ref"]
    return sorted(set(names)), other_id


@st.composite
def insertions(draw, d, next_to_ref=False):
    names, other_id = foreign_names(d)
    out = []
    for _ in range(draw(st.integers(1, 4))):
        kind = draw(st.sampled_from(["vocab", "vocab", "annotation", "later", "unknown", "other-id"]
                                    + (["own-next-to-ref"] * 4 if next_to_ref else [])))
        if kind == "own-next-to-ref":
            from ..oracle import spec
            n = draw(st.sampled_from(sorted(k for k in spec.KW[d] if k in HOT)))
        elif kind == "vocab" and names:
            n = draw(st.sampled_from(names))
        elif kind == "annotation":
            n = draw(st.sampled_from(ANNOTATIONS))
        elif kind == "later":
            n = draw(st.sampled_from(LATER))
        elif kind == "other-id":
            n = other_id
        else:
            n = draw(st.sampled_from(UNKNOWN))
        if n == other_id:
            v = draw(st.sampled_from(["http://ex.test/elsewhere/", "http://other.test/q/", "zzz/", "#frag", 5]))
        elif n in HOT and draw(st.integers(0, 3)) > 0:
            v = copy.deepcopy(draw(st.sampled_from(HOT[n])))
        else:
            v = draw(st.one_of(V.inst, GS.ODD))
        out.append({"pos": draw(st.integers(0, 50)), "name": n, "value": v, "kind": kind,
                    "front": draw(st.booleans())})
    if d == 3 and draw(st.integers(0, 3)) == 0:
        # an annotation right next to Draft 3's boolean `required`: a default does not make a property less required
        out.append({"pos": draw(st.integers(0, 50)), "name": draw(st.sampled_from(["default", "title", "description"])),
                    "value": draw(st.sampled_from([None, False, 0, "d", {}, [1]])), "kind": "annotation-at-required",
                    "front": draw(st.booleans())})
    k = draw(st.integers(0, 11))
    if k == 0:
        # a crowd: forty unknown members at one and the same position (vendor extensions, documentation fields)
        pos = draw(st.integers(0, 50))
        front = draw(st.booleans())
        for i in range(40):
            out.append({"pos": pos, "name": "x-crowd-%d" % i, "value": draw(st.sampled_from([i, "v", None, {"type": "null"}, [False]])),
                        "kind": "crowd", "front": front})
    elif k == 1:
        # a subschema relabelled as another draft's: `$schema` is not a keyword below the root, and what only that other
        # draft would honour stays foreign
        pos = draw(st.integers(0, 50))
        od = draw(st.sampled_from([x for x in impl.DRAFTS if x != d]))
        ids = {3: "http://json-schema.org/draft-03/schema#", 4: "http://json-schema.org/draft-04/schema#",
               6: "http://json-schema.org/draft-06/schema#", 7: "http://json-schema.org/draft-07/schema#"}
        from ..oracle import spec
        theirs = sorted(n for n in spec.KW[od] if n not in spec.KW[d] and n in HOT and n in names)
        out.append({"pos": pos, "name": "$schema", "value": ids[od], "kind": "relabel", "front": draw(st.booleans())})
        if theirs:
            n = draw(st.sampled_from(theirs))
            out.append({"pos": pos, "name": n, "value": copy.deepcopy(HOT[n][0]), "kind": "relabel", "front": False})
    return out


@st.composite
def cases(draw):
    if draw(st.integers(0, 9)) < 3:
        w = draw(GW.worlds())
        w["kind"] = "world"
        w["ref_siblings"] = draw(st.booleans())
        w["insert"] = draw(insertions(w["draft"], w["ref_siblings"]))
        # annotation / unknown-keyword values that merely CONTAIN something looking like an identified schema:
        # {"$id": <a URI some reference of this world names>, ...}
        uris = sorted(set(list(w["docs"]) + ["http://ex.test/missing.json"]))
        if draw(st.booleans()):
            u = draw(st.sampled_from(uris))
            decoy = {draw(st.sampled_from(["$id", "id"])): u, "type": "null", "definitions": {"a": False}}
            w["insert"].append({"pos": draw(st.integers(0, 50)), "name": draw(st.sampled_from(["examples", "default", "x-data", "definitions"])),
                                "value": draw(st.sampled_from([decoy, [decoy], {"a": decoy}])), "kind": "id-decoy",
                                "front": draw(st.booleans())})
        # and the other family's id keyword inside a retrievable document, naming ANOTHER document's URL
        w["doc_foreign_id"] = draw(st.booleans())
        # ... and on a subschema that merely ENCLOSES the target of a longer pointer, the target holding a
        # fragment-only reference (which must keep meaning the root document)
        w["enclosing_foreign_id"] = draw(st.integers(0, 2)) == 0
        # ... a later specification's container name ($defs) next to a pointer that spells `definitions`, and the
        # other family's id at the ROOT of a schema whose references are relative to an empty base
        w["structural"] = draw(st.sampled_from([None, None, "alt-container", "root-foreign-id-empty-base"]))
        return w
    d = draw(st.sampled_from(impl.DRAFTS))
    s = draw(GS.root_schemas(d, 8))
    xs = draw(GI.instances_for(s, 3))
    return {"kind": "plain", "draft": d, "schema": s, "instances": xs, "probes": 16, "insert": draw(insertions(d))}


def apply_insertions(d, schema, ins, allow_ref_objects, only_ref_objects=False):
    """Deep copy of schema with the foreign members inserted at the chosen dict positions."""
    s2 = copy.deepcopy(schema)
    idkw = impl.IDKW[d]
    pos = [p for p, sub in walk.walk(d, s2) if isinstance(sub, dict)
           and (allow_ref_objects or "$ref" not in sub)
           and (not only_ref_objects or "$ref" in sub)]
    req_pos = [p for p, sub in walk.walk(d, s2) if isinstance(sub, dict) and sub.get("required") is True and "$ref" not in sub]
    # never inside definitions' *map* itself; walk already yields only schema positions
    applied = 0
    for i in ins:
        if not pos:
            break
        p = pos[i["pos"] % len(pos)]
        if i["kind"] == "annotation-at-required":
            if not req_pos:
                continue
            p = req_pos[i["pos"] % len(req_pos)]
        partner = PARTNERS.get(i["name"])
        if partner and i["pos"] % 3:
            # most of the time, right next to the keyword that some OTHER draft lets it modify
            near = [q for q in pos if partner in walk.get(s2, q)]
            if near:
                p = near[i["pos"] % len(near)]
        node = walk.get(s2, p)
        if i["name"] in node:
            continue
        if "$ref" in node and i["name"] == idkw:
            continue
        if i["kind"] == "own-next-to-ref" and "$ref" not in node:
            continue
        if i.get("front"):
            items = list(node.items())
            node.clear()
            node[i["name"]] = copy.deepcopy(i["value"])
            node.update(items)
        else:
            node[i["name"]] = copy.deepcopy(i["value"])
        applied += 1
    return s2, applied


NO_MESSAGE = ("not", "oneOf", "type", "disallow")


def key(e):
    return (str(e.validator), impl.cj(list(e.path)), impl.cj(list(e.schema_path)), impl.cj(e.instance),
            "" if e.validator in NO_MESSAGE else e.message, tuple(sorted(key(c) for c in e.context)))


class C10(Prop):
    ID = "C10"
    QUICK = 1300
    THOROUGH = 14000
    RULE = ("case = a C01 case (70%) or a reference world (30%) plus 1-4 insertions (subschema position, foreign name, "
            "value): names from the other drafts' keyword tables (minus the names this draft's keywords consult), "
            "annotations, later-specification keywords, unknown names, the other draft family's id keyword; values are "
            "'hot' (would reject almost everything if honoured) or arbitrary JSON.  In worlds, half of the cases put "
            "the insertions next to $ref, and some put the other family's id on a schema enclosing a reference target.  Errors before and after insertion must be equal as multisets of (keyword, "
            "path, schema path, instance, message except for not/oneOf/type/disallow, context recursively); exceptions "
            "must be equal too.  Non-trivial: >= 1 insertion applied and (the instance is invalid or a hot value was "
            "inserted).")
    ASSUMPTIONS = ["names consulted by the draft's own keywords (exclusiveMinimum/Maximum in 3/4, required in 3, "
                   "then/else in 7) and the draft's own id keyword are not foreign"]
    GATES = {"kind:own-next-to-ref": 100, "kind:vocab": 300, "kind:other-id": 100, "kind:later": 100, "next-to-ref": 50, "foreign-id-on-enclosing-schema": 40, "structural:alt-container": 40, "kind:crowd": 500, "kind:relabel": 50, "structural:root-foreign-id-empty-base": 10, "hot": 300, "invalid": 300}
    MIN_NONTRIVIAL = 300

    def strategy(self, tier):
        return cases()

    def run(self, cls, schema, x, case, after=False):
        try:
            if case.get("kind") == "world":
                c2 = dict(case, root=schema)
                if after and case.get("docs_after"):
                    c2["docs"] = case["docs_after"]
                v = GW.build_validator(c2)
            else:
                v = cls(schema)
            return sorted(key(e) for e in v.iter_errors(copy.deepcopy(x))), None
        except RecursionError:
            return None, "RecursionError"
        except Exception as e:
            return None, impl.tname(e)

    def check(self, case):
        res = Result()
        res.evals = 0
        d = case["draft"]
        cls = impl.CLS[d]
        ins = case.get("insert") or []
        if case.get("kind") == "world":
            ok, why = GW.wellformed(case)
            if not ok:
                res.excluded = why
                return res
            kf = GW.known_finding_class(case)
            if kf:
                res.excluded = kf
                return res
            base = case["root"]
            s2, applied = apply_insertions(d, base, ins, True, only_ref_objects=bool(case.get("ref_siblings")))
            if case.get("doc_foreign_id") and len(case["docs"]) >= 2 and isinstance(base.get("properties", {}), dict):
                other = "$id" if d <= 4 else "id"
                us = sorted(case["docs"])
                docs2 = copy.deepcopy(case["docs"])
                if isinstance(docs2[us[0]], dict) and other not in docs2[us[0]]:
                    # both documents come through the handler, the first is fetched before the second is needed
                    docs2[us[0]][other] = us[1]
                    via2 = dict(case["via"])
                    via2[us[0]] = via2[us[1]] = "handler"
                    base = copy.deepcopy(base)
                    s2 = copy.deepcopy(s2)
                    for sch in (base, s2):
                        sch.setdefault("properties", {})
                        sch["properties"] = dict([("fa", {"$ref": us[0]}), ("fb", {"$ref": us[1]})],
                                                 **dict((k, v) for k, v in sch["properties"].items() if k not in ("fa", "fb")))
                    case = dict(case, docs_after=docs2, via=via2, root=base,
                                instances=list(case["instances"]) + [{"fa": 1, "fb": 1}, {"fa": "a", "fb": None}])
                    applied += 1
                    res.labels.append("foreign-id-in-document")
            if case.get("enclosing_foreign_id") and isinstance(base.get("properties", {}), dict) and isinstance(
                    base.get("definitions"), dict) and "enc" not in base["definitions"]:
                other = "$id" if d <= 4 else "id"
                both = [(n, u) for u in sorted(case["docs"]) for n in sorted(base["definitions"])
                        if isinstance(case["docs"][u], dict) and isinstance(case["docs"][u].get("definitions"), dict)
                        and n in case["docs"][u]["definitions"] and case["via"].get(u) in ("store", "handler")]
                if both:
                    from ..oracle import pointer as optr
                    n, u = both[0]
                    base = copy.deepcopy(base)
                    s2 = copy.deepcopy(s2)
                    for sch, foreign in ((base, False), (s2, True)):
                        enc = {"definitions": {"in": {"$ref": "#" + optr.encode(["definitions", n])}}}
                        if foreign:
                            enc[other] = u
                        sch["definitions"]["enc"] = enc
                        sch.setdefault("properties", {})
                        sch["properties"] = dict([("fe", {"$ref": "#/definitions/enc/definitions/in"})],
                                                 **dict((k, v) for k, v in sch["properties"].items() if k != "fe"))
                    case = dict(case, root=base, instances=list(case["instances"]) + [
                        {"fe": 1}, {"fe": "a"}, {"fe": None}, {"fe": []}, {"fe": {}}, {"fe": "abc"}, {"fe": 2.5}])
                    applied += 1
                    res.labels.append("foreign-id-on-enclosing-schema")
            st_ = case.get("structural")
            if st_ == "alt-container" and isinstance(base.get("properties", {}), dict):
                base = copy.deepcopy(base)
                s2 = copy.deepcopy(s2)
                for sch, foreign in ((base, False), (s2, True)):
                    holder = {"type": ["object", "null", "string"]}
                    if foreign:
                        holder["$defs"] = {"x": {"type": "null"}}       # not a keyword of any of the four drafts
                    sch.setdefault("properties", {})
                    sch["properties"] = dict([("fh", holder), ("fd", {"$ref": "#/properties/fh/definitions/x"})],
                                             **dict((k, v) for k, v in sch["properties"].items() if k not in ("fh", "fd")))
                case = dict(case, root=base, instances=list(case["instances"]) + [{"fd": 1}, {"fd": None}, {"fh": None}])
                applied += 1
                res.labels.append("structural:alt-container")
            if st_ == "root-foreign-id-empty-base" and GW.root_uri(case) == "" and isinstance(base.get("properties", {}), dict) \
                    and "rel.json" not in case["docs"] and ("$id" if d <= 4 else "id") not in base:
                other = "$id" if d <= 4 else "id"
                base = copy.deepcopy(base)
                s2 = copy.deepcopy(s2)
                for sch, foreign in ((base, False), (s2, True)):
                    if foreign:
                        sch[other] = "http://ex.test/elsewhere/"
                    sch.setdefault("properties", {})
                    sch["properties"] = dict([("fr", {"$ref": "rel.json"}), ("fq", {"$ref": "rel.json#/definitions/q"})],
                                             **dict((k, v) for k, v in sch["properties"].items() if k not in ("fr", "fq")))
                docs3 = dict(case["docs"], **{"rel.json": {"type": "null", "definitions": {"q": {"type": "string"}}}})
                via3 = dict(case["via"], **{"rel.json": "store"})
                case = dict(case, root=base, docs=docs3, via=via3,
                            instances=list(case["instances"]) + [{"fr": 1}, {"fr": None}, {"fq": 1}, {"fq": "s"}])
                if case.get("docs_after"):
                    case["docs_after"] = dict(case["docs_after"], **{"rel.json": docs3["rel.json"]})
                applied += 1
                res.labels.append("structural:root-foreign-id-empty-base")
            if case.get("ref_siblings") and applied:
                res.labels.append("next-to-ref")
            xs = case["instances"]
        else:
            base = case["schema"]
            if walk.has_ref(d, base):
                res.excluded = "has-ref"
                return res
            try:
                cls.check_schema(base)
            except Exception:
                res.excluded = "schema-rejected"
                return res
            s2, applied = apply_insertions(d, base, ins, False)
            xs = list(case["instances"]) + (GI.probes(base, case["probes"]) if case.get("probes") else [])
        if not applied:
            res.excluded = "nothing-inserted"
            return res
        hot = any(i["name"] in HOT and any(i["value"] == h for h in HOT[i["name"]]) for i in ins) or any(
            i["kind"] == "other-id" for i in ins)
        for i in ins:
            res.labels.append("kind:" + i["kind"])
        if hot:
            res.labels.append("hot")
        for x in xs:
            res.evals += 1
            a, ea = self.run(cls, base, x, case)
            b, eb = self.run(cls, s2, x, case, after=True)
            if ea == "RecursionError" or eb == "RecursionError":
                res.excluded = "non-terminating"
                continue
            if ea != eb:
                res.fail(("exception-changes", str(ea), str(eb)), "instance=%s inserted=%s" % (
                    impl.cj(x)[:200], impl.cj([[i["name"], i["value"]] for i in ins])[:300]))
                continue
            if ea:
                continue
            if a != b:
                ca, cb = collections.Counter(a), collections.Counter(b)
                res.fail(("errors-change", "more" if len(b) > len(a) else "fewer" if len(b) < len(a) else "different"),
                         "instance=%s inserted=%s\n only before: %r\n only after: %r" % (
                             impl.cj(x)[:200], impl.cj([[i["name"], i["value"]] for i in ins])[:300],
                             list((ca - cb).elements())[:2], list((cb - ca).elements())[:2]))
            if a:
                res.labels.append("invalid")
            if a or hot:
                res.nontrivial = True
        return res

    def focus(self, case, bucket):
        if case.get("kind") == "world":
            for x in case["instances"]:
                yield dict(case, instances=[x])
            return
        xs = list(case["instances"]) + (GI.probes(case["schema"], case["probes"]) if case.get("probes") else [])
        for x in xs:
            yield dict(case, instances=[x], probes=0)


PROP = C10()
