"""C03 — validation is total: accepted schema + JSON instance never crashes (typed crash oracle)."""
import copy
import itertools
import traceback

from hypothesis import strategies as st

from .. import harness, impl
from ..gen import instances as GI, schemas as GS, values as V, walk
from ..harness import Prop, Result

HOSTILE_SCALARS = [None, True, False, 0, 1, -1, 1.0, -0.0, 0.5, 1.5, 2 ** 53, 2 ** 53 + 1, 2 ** 63, 10 ** 400, -10 ** 400,
                   1e308, -1e308, 5e-324, 1.7976931348623157e308, "", "a", "ab", "\U0001F600", "a{99999999999}",
                   "(?a)(?u)", "20200101", "2020-W01-1", "1.2.3.4", "::1%eth0", "x" * 300, "\u0000", "a\nb", "1" * 40 + "e", "2147483648:00:00"]
hostile_scalar = st.one_of(st.sampled_from(HOSTILE_SCALARS), V.scalars_wide)
hostile = st.recursive(hostile_scalar, lambda c: st.one_of(st.lists(c, max_size=4),
                                                          st.dictionaries(V.keys, c, max_size=4)), max_leaves=10)


@st.composite
def deep(draw):
    v = draw(hostile_scalar)
    for _ in range(draw(st.integers(4, 12))):
        v = [v] if draw(st.booleans()) else {draw(V.small_keys): v}
    return v


# reference strings that can never form a cycle: they designate leaf definitions (subschema positions) or nothing
# at all (missing member, index past the end of an array, a member of a string) -- never a non-schema value
SAFE_REFS = ["#/definitions/a", "#/definitions/nope", "#/items/2", "#/items/0", "#/items/7", "#/definitions/a/type/7",
             "#/x-data/arr/5", "#/x-data/arr/0", "#/definitions/a/enum/7", "#/definitions/a/enum/0/x",
             "#/x-data/str/0", "#/x-data/str/x", "#/nope/nope", "#/definitions/b", "#/x-data/arr/-1",
             "#/x-data/arr/01", "#/definitions/", "http://ex.test/unreachable.json#/x", "unreachable.json",
             "#/definitions/a/maxLength/0", "#//", "#/%", "#/x-data/arr/0%0A", "#/x-data"]
SAFE_DEFS = {"a": {"type": ["string", "null"], "enum": ["s", None]}, "b": {"minimum": 3}}
# an array and a string to point into; under a name no metaschema knows, so that every draft accepts the schema
# (under `definitions` drafts 4+ reject them, and the flavour silently shrank to Draft 3)
SAFE_DATA = {"arr": [{"type": "integer"}], "str": "just a string"}


@st.composite
def cases(draw):
    d = draw(st.sampled_from(impl.DRAFTS))
    src = draw(st.integers(0, 14))
    if src == 14:
        # one small schema below 24-40 levels of single-branch applicators, and an instance that reaches the
        # bottom and fails (or passes) there: the work must stay proportional to the depth
        ws = (["anyOf", "allOf", "oneOf", "items", "properties", "additionalProperties", "not-not"] if d >= 4
              else ["extends", "type-union", "items", "properties", "additionalProperties", "disallow-disallow"])
        chain = draw(st.lists(st.sampled_from(ws + ws[:3]), min_size=24, max_size=40))
        s, bad, good = {"type": "integer"}, "not an integer", 7
        for w in chain:
            if w in ("anyOf", "allOf", "oneOf", "extends"):
                s = {w: [s]}
            elif w == "type-union":
                s = {"type": [s]}
            elif w == "not-not":
                s = {"not": {"not": s}}
            elif w == "disallow-disallow":
                s = {"disallow": [{"disallow": [s]}]}
            elif w == "items":
                s, bad, good = {"items": s}, [bad], [good]
            elif w == "properties":
                s, bad, good = {"properties": {"k": s}}, {"k": bad}, {"k": good}
            else:
                s, bad, good = {"additionalProperties": s}, {"z": bad}, {"z": good}
        return {"draft": d, "schema": s, "instances": [bad, good, {"k": [bad]}], "flavour": "deep-chain", "probes": 0}
    if src == 13:
        # references to documents elsewhere, retrieved through a handler that fails in some way of its own
        s = {"properties": {k: {"$ref": draw(st.sampled_from(REMOTE_REFS))}
                            for k in draw(st.lists(V.small_keys, min_size=1, max_size=3, unique=True))}}
        if draw(st.booleans()):
            s["additionalProperties"] = {"$ref": draw(st.sampled_from(REMOTE_REFS))}
        if draw(st.booleans()):
            s[impl.IDKW[d]] = "http://ex.test/root/schema.json"
        xs = [draw(st.dictionaries(V.small_keys, hostile_scalar, min_size=1, max_size=4)) for _ in range(3)]
        return {"draft": d, "schema": s, "instances": xs, "flavour": "failing-handler", "probes": 0,
                "handler": draw(st.sampled_from(sorted(HANDLER_FAILURES)))}
    if src == 12:
        # a format keyword met by strings that are hostile to format parsers (long digit runs, huge fields, NUL ...)
        from . import c13
        f = draw(st.sampled_from(["ipv4", "ip-address", "ipv6", "date", "time", "regex", "email", "idn-hostname"]))
        s = {"format": f}
        if draw(st.booleans()):
            s["type"] = "string"
        xs = [draw(st.sampled_from(c13.SEEDS[f])) for _ in range(3)]
        return {"draft": d, "schema": s, "instances": xs, "flavour": "format-hostile", "probes": 0}
    if src >= 10:
        s = dict(draw(GS.schema_object(d, GS.schemas(d, 4))))
        s.pop("definitions", None)
        if not isinstance(s.get("items"), list):
            s["items"] = [{"type": "string"}, {"type": "integer"}]
        s["definitions"] = copy.deepcopy(SAFE_DEFS)
        s["x-data"] = copy.deepcopy(SAFE_DATA)
        props = {}
        for k in draw(st.lists(V.small_keys, min_size=1, max_size=3, unique=True)):
            props[k] = {"$ref": draw(st.sampled_from(SAFE_REFS))}
        s["properties"] = props
        if draw(st.booleans()):
            s["additionalProperties"] = {"$ref": draw(st.sampled_from(SAFE_REFS))}
        if draw(st.booleans()):
            # data that merely LOOKS like an id (inside default / enum, or a property that is called "id")
            odd = draw(st.sampled_from([7, None, ["x"], {"a": 1}, True]))
            where = draw(st.integers(0, 2))
            other = "$id" if d <= 4 else "id"
            if where == 0:
                s["default"] = {"id": odd, "$id": odd}
            elif where == 1:
                s["enum"] = [{"id": odd}, {"$id": odd}, "s", None, 1]
            else:
                s[other] = odd          # the other family's keyword is unknown here, any value
        xs = [draw(st.dictionaries(V.small_keys, hostile_scalar, min_size=1, max_size=4)) for _ in range(3)]
        return {"draft": d, "schema": s, "instances": xs, "flavour": "safe-refs", "probes": 6}
    if src < 6:
        s = draw(GS.liberal(d))
        flavour = "liberal"
    else:
        s = draw(GS.root_schemas(d, 8))
        flavour = "well-meant"
    xs = []
    for _ in range(3):
        k = draw(st.integers(0, 9))
        if k < 4:
            xs.append(draw(GI.instance_for(s, 0, hostile)))
        elif k < 9:
            xs.append(draw(hostile))
        else:
            xs.append(draw(deep()))
    return {"draft": d, "schema": s, "instances": xs, "flavour": flavour, "probes": 12}


REMOTE_REFS = ["http://ex.test/other.json", "http://ex.test/other.json#/definitions/a", "other.json#", "sub/other.json",
               "https://ex.test/x", "urn:example:doc", "file:///nonexistent/verif.json", "//ex.test/other.json"]


class HandlerFailure(Exception):
    pass


def _raiser(kind):
    def handler(uri):
        raise HANDLER_FAILURES[kind]
    return handler


HANDLER_FAILURES = {"ValueError": ValueError("no JSON here"), "KeyError": KeyError("uri"), "TypeError": TypeError("bad"),
                    "OSError": OSError("unreachable"), "Custom": HandlerFailure("custom"),
                    "UnicodeDecodeError": UnicodeDecodeError("utf-8", b"\xff", 0, 1, "invalid start byte"),
                    "LookupError": LookupError("nothing")}


def only_remote_refs(s):
    if not isinstance(s, dict) or set(s) - {"properties", "additionalProperties", "id", "$id"}:
        return False
    subs = list(s["properties"].values()) if isinstance(s.get("properties"), dict) else []
    if "additionalProperties" in s:
        subs.append(s["additionalProperties"])
    return bool(subs) and all(isinstance(e, dict) and set(e) == {"$ref"} and e["$ref"] in REMOTE_REFS for e in subs) and all(
        s.get(k, "http://ex.test/root/schema.json") == "http://ex.test/root/schema.json" for k in ("id", "$id"))


MAP_KEYWORDS = ("properties", "patternProperties", "definitions", "dependencies", "$defs")


def risky_ref(v, in_map=False):
    """Any object at (what may be) a schema position carrying a `$ref` member: a string there could hide a
    reference cycle, anything else is outside the property's precondition.  Members of properties-like maps
    are names, not keywords: {"properties": {"$ref": {...}}} declares a property called $ref."""
    if isinstance(v, dict):
        if not in_map and "$ref" in v:
            return True
        return any(risky_ref(e, in_map=(not in_map and k in MAP_KEYWORDS)) for k, e in v.items())
    if isinstance(v, list):
        return any(risky_ref(e) for e in v)
    return False


def only_safe_refs(s):
    """safe-refs flavour: every $ref string comes from SAFE_REFS and the definitions are the fixed leaf set,
    so no reference can lead back into the schema (no cycles)."""
    if not isinstance(s, dict) or s.get("definitions") != SAFE_DEFS or s.get("x-data") != SAFE_DATA:
        return False

    def ok(v, in_map=False):
        if isinstance(v, dict):
            if not in_map and "$ref" in v and not (isinstance(v["$ref"], str) and v["$ref"] in SAFE_REFS):
                return False
            return all(ok(e, in_map=(not in_map and k in MAP_KEYWORDS)) for k, e in v.items())
        if isinstance(v, list):
            return all(ok(e) for e in v)
        return True
    it = s.get("items")
    if not isinstance(it, list) or any(risky_ref(e) for e in it):
        return False
    return ok(s)


def bad_regex(v):
    """Precondition of the property: every regular expression compiles in Python re."""
    import re
    if isinstance(v, dict):
        p = v.get("pattern")
        if isinstance(p, str):
            try:
                re.compile(p)
            except Exception:
                return True
        pp = v.get("patternProperties")
        if isinstance(pp, dict):
            for k in pp:
                try:
                    re.compile(k)
                except Exception:
                    return True
        return any(bad_regex(e) for e in v.values())
    if isinstance(v, list):
        return any(bad_regex(e) for e in v)
    return False


def innermost(exc):
    tb = traceback.extract_tb(exc.__traceback__)
    for fr in reversed(tb):
        if "/jsonschema/" in fr.filename and "/pbt/" not in fr.filename:
            return "%s.%s" % (fr.filename.rsplit("/", 1)[-1][:-3], fr.name)
    return "outside"


def unusual(d, s):
    if not isinstance(s, dict):
        return True
    for k, v in s.items():
        if isinstance(v, (bool, type(None))) or v in ([], {}, "") or (isinstance(v, float)) or (
                isinstance(v, int) and abs(v) > 2 ** 53):
            return True
    return False


def allowed(d):
    ok = [impl.exceptions.ValidationError, impl.exceptions.RefResolutionError]
    if d == 3:
        ok.append(impl.exceptions.UnknownType)
    return tuple(ok)


def entry_points(cls, s, x, fc, handler=None):
    """Run every entry point; yield (name, exception-or-None)."""
    def kw():
        if handler is None:
            return {"format_checker": fc}
        h = _raiser(handler)
        return {"format_checker": fc, "resolver": impl.validators.RefResolver.from_schema(
            s, id_of=cls.ID_OF, handlers={"http": h, "https": h, "urn": h, "file": h, "": h})}

    def ep_is_valid():
        cls(s, **kw()).is_valid(x)

    def ep_iter_errors():
        for e in cls(s, **kw()).iter_errors(x):
            str(e)

    def ep_validate():
        cls(s, **kw()).validate(x)

    def ep_module_validate():
        impl.jsonschema.validate(x, s, cls=cls, **kw())

    def ep_module_validate_no_cls():
        impl.jsonschema.validate(x, s, **kw())

    eps = [("is_valid", ep_is_valid), ("iter_errors", ep_iter_errors), ("validate", ep_validate),
           ("jsonschema.validate", ep_module_validate)]
    if cls is impl.CLS[7] and not (isinstance(s, dict) and "$schema" in s):
        # the class is then chosen by jsonschema.validate itself: the latest draft for a schema that names none
        eps.append(("jsonschema.validate(no cls)", ep_module_validate_no_cls))
    for name, f in eps:
        try:
            f()
        except Exception as e:      # noqa: the oracle classifies it
            yield name, e
        else:
            yield name, None


def judge(res, d, s, x, fcs=("none", "default", "draft"), handler=None):
    cls = impl.CLS[d]
    ok = allowed(d)
    for fcn in fcs:
        fc = {"none": None, "default": impl.jsonschema.FormatChecker(), "draft": impl.DRAFT_CHECKERS[d]}[fcn]
        for name, exc in entry_points(cls, s, x, fc, handler):
            res.evals += 1
            if exc is None or isinstance(exc, ok):
                if exc is not None and not isinstance(exc, impl.exceptions.ValidationError):
                    res.labels.append("raised:" + impl.tname(exc))
                continue
            res.fail(("crash", impl.tname(exc), innermost(exc)),
                     "%s (format_checker=%s) raised %s: %s; instance=%s" % (
                         name, fcn, impl.tname(exc), str(exc)[:200], impl.cj(x)[:300]))


class C03(Prop):
    ID = "C03"
    WATCHDOG_IS_VIOLATION = True
    QUICK = 500
    THOROUGH = 12000
    RULE = ("case = (draft, schema from the liberal grammar (odd / degenerate / arbitrary keyword values) or the "
            "well-meant grammar, or references served by a handler that fails in one of 7 ways, kept only if check_schema accepts it; 3 drawn hostile instances (huge and tiny "
            "numbers, deep nesting <= 12, format-hostile strings) plus 12 schema-derived probes); every pair is run "
            "through is_valid, iter_errors (+str of each error), validate and jsonschema.validate, each with no "
            "format checker, FormatChecker() and the draft's checker; only ValidationError, RefResolutionError and "
            "(Draft 3) UnknownType may escape.  Plus an exhaustive small-scope stage: every keyword x 60-value pool "
            "(and consulted sibling pairs) x 40 hostile instances.  Non-trivial: schema accepted and it carries an "
            "unusual keyword value (null/boolean/empty/float/huge) or the instance is outside plain JSON scalars.")
    ASSUMPTIONS = ["$ref appears only in the 'safe-refs' flavour (references to leaf definitions or to nothing: missing "
                   "members, indices past the end, members of strings), which cannot form cycles; other schemas "
                   "containing $ref are excluded (cycles / non-string $ref are outside the claim)",
                   "instances nested deeper than 40 levels and integers beyond 4000 digits are not generated (CPython limits)",
                   "a case that does not finish within the per-case watchdog (30 s) or stops a worker's heartbeat (75 s) is reported as a violation: the statement says every entry point finishes"]
    GATES = {"accepted:liberal": 500, "accepted:well-meant": 500, "unusual": 300, "accepted:safe-refs": 200, "accepted:failing-handler": 150, "accepted:deep-chain": 150, "accepted:safe-refs:d3": 30, "accepted:safe-refs:d4": 30, "accepted:safe-refs:d6": 30,
             "accepted:safe-refs:d7": 30, "accepted:liberal:d3": 60, "accepted:liberal:d4": 60, "accepted:liberal:d6": 60,
             "accepted:liberal:d7": 60,
             "raised:RefResolutionError": 100}
    MIN_NONTRIVIAL = 300

    def strategy(self, tier):
        return cases()

    def check(self, case):
        res = Result()
        res.evals = 0
        d, s = case["draft"], case["schema"]
        cls = impl.CLS[d]
        handler = None
        if case.get("flavour") == "failing-handler":
            handler = case.get("handler")
            if handler not in HANDLER_FAILURES or not only_remote_refs(s):
                res.excluded = "malformed-case"
                return res
        elif risky_ref(s) and not (case.get("flavour") == "safe-refs" and only_safe_refs(s)):
            res.excluded = "contains-$ref"
            return res
        if bad_regex(s):
            res.excluded = "uncompilable-regex"
            return res
        try:
            cls.check_schema(s)
        except impl.exceptions.SchemaError:
            res.excluded = "rejected-by-check_schema"
            res.labels.append("rejected:" + case.get("flavour", "?"))
            return res
        except Exception as e:
            res.fail(("check_schema-crash", impl.tname(e), innermost(e)), "check_schema raised %r" % (e,))
            return res
        res.labels.append("accepted:" + case.get("flavour", "?"))
        res.labels.append("accepted:%s:d%d" % (case.get("flavour", "?"), d))
        xs = list(case["instances"])
        if case.get("probes"):
            xs += GI.probes(s, case["probes"])[:case["probes"]]
        un = unusual(d, s)
        if un:
            res.labels.append("unusual")
        for i, x in enumerate(xs):
            judge(res, d, s, x, ("none", "default", "draft") if i < 4 else ("none",), handler)
        res.nontrivial = un or any(not isinstance(x, (str, bool, type(None))) and not (
            isinstance(x, (int, float)) and abs(x) < 2 ** 53) for x in case["instances"])
        return res

    def focus(self, case, bucket):
        xs = list(case["instances"]) + (GI.probes(case["schema"], case["probes"]) if case.get("probes") else [])
        for x in xs:
            yield dict(case, instances=[x], probes=0)

    # ---- exhaustive small-scope stage ---------------------------------------------------------
    def extra_stages(self, tier, seed, acc):
        import multiprocessing as mp
        jobs = [(d, k) for d in impl.DRAFTS for k in enum_keywords(d)]
        ctx = mp.get_context("spawn")
        total = collections_counter()
        with ctx.Pool(int(harness.os.environ.get("VERIF_WORKERS", "16"))) as pool:
            for sub in pool.imap_unordered(_enum_job, jobs, chunksize=2):
                acc.merge(sub)
        if tier == "thorough":
            harness.fuzz_stage(self, acc, "pbt.fuzz.c03_fuzz", seed, 60000, jobs=8, max_len=300)
        acc.extra["enumeration"] = {"keywords": len(jobs), "value_pool": len(VALUE_POOL),
                                    "instance_pool": len(INSTANCE_POOL),
                                    "exhaustive_over": "every {k: v} and consulted-sibling pair {k: v, k2: v2} for "
                                                       "k in the draft's vocabulary, v in the value pool, accepted by "
                                                       "check_schema, against every pool instance"}


def collections_counter():
    import collections
    return collections.Counter()


VALUE_POOL = [None, True, False, 0, 1, 2, -1, 0.0, 1.0, 2.0, 0.5, 1.5, -0.0, 2 ** 53 + 1, 10 ** 400, 1e308, 5e-324,
              "", "a", "^a", "(", "string", "object", "array", "integer", "any", "#", "ipv4", "regex", "date",
              [], [[]], [{}], [True], [False], ["a"], ["a", "b"], ["string"], ["string", "null"], [1], [0, False],
              [{"type": "string"}], [{}, {}], [True, False],
              {}, {"a": {}}, {"a": True}, {"a": False}, {"a": []}, {"a": ["b"]}, {"a": "b"}, {"a": 1},
              {"type": "string"}, {"minimum": 1}, {"a": {"type": "integer"}}, {"^a": {}}, {"": {}},
              {"required": True}, {"a": {"required": True}}, {"items": False}]
INSTANCE_POOL = [None, True, False, 0, 1, -1, 2, 0.0, 1.0, 0.5, 1.5, 2 ** 53 + 1, 10 ** 400, -10 ** 400, 1e308, 5e-324,
                 "", "a", "ab", "abc", "\U0001F600", "a{99999999999}", "1.2.3.4",
                 [], [1], [1, 1], [1, 2, 3], [[]], [{}], [None, True], ["a", "b", "c", "d"], [10 ** 400, 0.5],
                 {}, {"a": 1}, {"a": 1, "b": 2}, {"b": 1}, {"a": []}, {"a": {}}, {"": 1}, {"a": None, "zz": "x"}]
PAIRS = {"additionalProperties": ("properties", "patternProperties"), "additionalItems": ("items",),
         "if": ("then", "else"), "minimum": ("exclusiveMinimum",), "maximum": ("exclusiveMaximum",),
         "exclusiveMinimum": ("minimum",), "exclusiveMaximum": ("maximum",), "items": ("additionalItems",),
         "properties": ("required", "additionalProperties"), "then": ("if",), "else": ("if",)}


def enum_keywords(d):
    cls = impl.CLS[d]
    names = set(cls.VALIDATORS) | set(cls.META_SCHEMA.get("properties", {}))
    names -= {"$ref", "$schema", "id", "$id"}
    return sorted(names)


def _enum_job(job):
    d, k = job
    harness.bind_repo()
    acc = harness.Acc()
    cls = impl.CLS[d]
    schemas = [{k: v} for v in VALUE_POOL]
    for k2 in PAIRS.get(k, ()):
        if k2 in enum_keywords(d):
            schemas += [{k: v, k2: v2} for v, v2 in itertools.product(VALUE_POOL, VALUE_POOL)]
    for s in schemas:
        s = copy.deepcopy(s)
        res = Result()
        res.evals = 0
        if bad_regex(s):
            continue
        try:
            cls.check_schema(s)
        except impl.exceptions.SchemaError:
            res.excluded = "enum:rejected"
            res.evals = 1
            acc.add({"draft": d, "schema": s, "instances": [], "probes": 0, "flavour": "enum"}, res, False)
            continue
        except Exception as e:
            res.fail(("check_schema-crash", impl.tname(e), innermost(e)), repr(e))
            acc.add({"draft": d, "schema": s, "instances": [], "probes": 0, "flavour": "enum"}, res, False)
            continue
        res.labels.append("enum:accepted")
        bad_x = []
        for x in INSTANCE_POOL:
            n0 = len(res.failures)
            judge(res, d, s, copy.deepcopy(x), ("none", "draft", "default") if "format" in s else ("none", "draft"))
            if len(res.failures) > n0:
                bad_x.append(x)
        res.nontrivial = True
        case = {"draft": d, "schema": s, "instances": bad_x[:1], "probes": 0, "flavour": "enum"}
        seen = set()
        res.failures = [f for f in res.failures if not (f[0] in seen or seen.add(f[0]))]
        acc.add(case, res, keep_sample=False)
    return acc


PROP = C03()
