"""C19 — command line: exit status, diagnostics and per-instance processing follow the library
(reference model computed from library calls)."""
import io
import json
import os
import re
import shutil
import subprocess
import sys
import tempfile

from hypothesis import strategies as st

from .. import harness, impl
from ..gen import instances as GI, schemas as GS, walk
from ..harness import Prop, Result

SCHEMA_URIS = {3: "http://json-schema.org/draft-03/schema#", 4: "http://json-schema.org/draft-04/schema#",
               6: "http://json-schema.org/draft-06/schema#", 7: "http://json-schema.org/draft-07/schema#"}
VALIDATOR_NAMES = {3: "Draft3Validator", 4: "Draft4Validator", 6: "Draft6Validator", 7: "Draft7Validator"}
FORMATS = [None, "", "{error.message:.0}", "\x01{error.path[0]}|{error.message}\x02", "\x01{error.message}\x02", "\x01{error.validator}|{error.json_path}\x02\n",
           "\x01{error.instance}\x02", "\x01{error.schema_path}\x02"]


@st.composite
def cases(draw):
    d = draw(st.sampled_from(impl.DRAFTS))
    sstate = draw(st.sampled_from(["valid"] * 7 + ["missing", "notjson", "invalid", "notutf8"]))
    schema = draw(GS.root_schemas(d, 5))
    use_dollar = draw(st.booleans())
    if isinstance(schema, dict) and use_dollar:
        schema = dict(schema)
        schema["$schema"] = SCHEMA_URIS[d]
    if sstate == "invalid":
        schema = {"type": 12, "minimum": "x"} if d != 3 else {"minimum": "x", "properties": 5}
        if use_dollar:
            schema["$schema"] = SCHEMA_URIS[d]
    explicit = draw(st.sampled_from([None, None, d, draw(st.sampled_from(impl.DRAFTS))]))
    if explicit is None and not (isinstance(schema, dict) and "$schema" in schema):
        # class would default to the latest draft: generate for that draft
        pass
    n = draw(st.integers(0, 5))
    insts = []
    for _ in range(n):
        st_ = draw(st.sampled_from(["json"] * 6 + ["missing", "notjson", "notutf8"]))
        val = draw(GI.instance_for(schema if isinstance(schema, dict) else {}, 0)) if st_ == "json" else None
        insts.append({"state": st_, "value": val,
                      "name": draw(st.sampled_from(["", "", "", " with space", "{}", "{0}", "{x}", "{{y}}", "%s", "'q'",
                                                    "é", "[1]", "$", "{error}", "<stdin>"]))})
    stdin = None
    if n == 0:
        k = draw(st.sampled_from(["json", "json", "notjson", "blank"]))
        stdin = {"state": k, "value": draw(GI.instance_for(schema if isinstance(schema, dict) else {}, 0))}
    output = draw(st.sampled_from(["plain", "plain", "pretty"]))
    fmt = draw(st.sampled_from(FORMATS)) if output == "plain" else None
    base_uri = draw(st.integers(0, 4)) == 0
    return {"draft": d, "schema_state": sstate, "schema": schema, "validator": explicit, "instances": insts,
            "stdin": stdin, "output": output, "error_format": fmt, "base_uri": base_uri,
            "subprocess": draw(st.integers(0, 39)) == 0, "local_ref": draw(st.integers(0, 3)) == 0,
            "id_redirect": draw(st.booleans()), "spaced_ref": draw(st.booleans())}


NOT_JSON = '{"unterminated": [1, 2'
NOT_UTF8 = b'{"a": "\xff\xfe"}'


def materialise(case, tmp):
    """Write the scenario's files; return (argv, stdin_text, paths)."""
    spath = os.path.join(tmp, "schema.json")
    schema = case["schema"]
    if case["base_uri"]:
        # the schema file does not live where the base URI points: relative references follow the base URI
        os.makedirs(os.path.join(tmp, "schemas"), exist_ok=True)
        spath = os.path.join(tmp, "schemas", "main.json")
    if case.get("local_ref") and not case["base_uri"] and case["schema_state"] == "valid" and isinstance(schema, dict):
        # a root id of the draft's own kind plus a local reference (no --base-uri): resolved within the document
        used = case["validator"] or (case["draft"] if "$schema" in schema else 7)     # the class the CLI will use
        idkw = "id" if used <= 4 else "$id"
        top = {idkw: "http://ex.test/cli/root.json", "definitions": {"x y": schema}, "$ref": "#/definitions/x%20y"}
        if "$schema" in schema:
            top["$schema"] = schema["$schema"]
        schema = top
    if case["base_uri"] and case["schema_state"] == "valid" and isinstance(schema, dict):
        # move the real schema to a sibling file and refer to it relatively
        used = case["validator"] or (case["draft"] if "$schema" in schema else 7)
        fname, fref = ("other file.json", "other%20file.json") if case.get("spaced_ref") else ("other.json", "other.json")
        if case.get("spaced_ref"):
            # a file whose NAME is the escaped spelling sits next to the real one: a reference is a URI, its path is
            # percent-decoded before it becomes a file name
            for dd in ("", "real"):
                os.makedirs(os.path.join(tmp, dd), exist_ok=True)
                with open(os.path.join(tmp, dd, fref), "w") as f:
                    json.dump({"definitions": {"x y": {"enum": ["only-the-escaped-twin-accepts-this"]}}}, f)
        if case.get("id_redirect"):
            # the root schema declares an id of its own in ANOTHER directory: relative references follow the id, not
            # the --base-uri (which only stands in for the retrieval URI); a decoy with the same name sits where the
            # base URI points
            os.makedirs(os.path.join(tmp, "real"), exist_ok=True)
            with open(os.path.join(tmp, "real", fname), "w") as f:
                json.dump({"definitions": {"x y": schema}}, f)
            with open(os.path.join(tmp, fname), "w") as f:
                json.dump({"definitions": {"x y": {"enum": ["only-the-decoy-accepts-this"]}}}, f)
            top = {"id" if used <= 4 else "$id": "file://" + tmp + "/real/",
                   "extends" if used == 3 else "allOf": [{"$ref": fref + "#/definitions/x%20y"}]}
        else:
            with open(os.path.join(tmp, fname), "w") as f:
                json.dump({"definitions": {"x y": schema}}, f)
            top = {"$ref": fref + "#/definitions/x%20y"}
        if "$schema" in schema:
            top["$schema"] = schema["$schema"]
        schema = top
    if case["schema_state"] == "missing":
        pass
    elif case["schema_state"] == "notjson":
        open(spath, "w").write(NOT_JSON)
    elif case["schema_state"] == "notutf8":
        open(spath, "wb").write(NOT_UTF8)
    else:
        with open(spath, "w") as f:
            json.dump(schema, f)
    argv = []
    ipaths = []
    for i, inst in enumerate(case["instances"]):
        p = os.path.join(tmp, "inst%d%s.json" % (i, inst.get("name", "")))
        if inst.get("name") == "<stdin>" and not any(pp == "<stdin>" for pp in ipaths):
            # a real file whose whole name is what the tool SHOWS for standard input, given as a relative path (the
            # run happens with the scenario's directory as working directory); standard input holds something else
            p = "<stdin>"
        real = os.path.join(tmp, p)          # (an absolute p stays as it is)
        if inst["state"] == "json":
            with open(real, "w") as f:
                json.dump(inst["value"], f)
        elif inst["state"] == "notjson":
            open(real, "w").write(NOT_JSON)
        elif inst["state"] == "notutf8":
            open(real, "wb").write(NOT_UTF8)
        argv += ["-i", p]
        ipaths.append(p)
    if case["output"] == "pretty":
        argv += ["--output", "pretty"]
    if case["error_format"] is not None:
        argv += ["--error-format", case["error_format"]]
    if case["validator"]:
        argv += ["--validator", VALIDATOR_NAMES[case["validator"]]]
    if case["base_uri"]:
        argv += ["--base-uri", "file://" + tmp + "/"]
    argv.append(spath)
    stdin_text = NOT_JSON if "<stdin>" in ipaths else ""
    if case["stdin"] is not None:
        st_ = case["stdin"]["state"]
        stdin_text = json.dumps(case["stdin"]["value"]) if st_ == "json" else ("" if len(str(case["stdin"].get("value"))) % 2 else " \n") \
            if st_ == "blank" else NOT_JSON
    return argv, stdin_text, spath, ipaths, schema


def expected(case, tmp, spath, ipaths, schema):
    """Model from library calls: (ok, units) with units = [('diag', path) | ('err', error, path) | ('success', path)]
    in order, and whether any instance is processed."""
    units = []
    if case["schema_state"] in ("missing", "notjson", "notutf8"):
        return False, [("diag", spath)]
    if case["validator"]:
        cls = impl.CLS[case["validator"]]
    else:
        cls = impl.validators.validator_for(schema)
    try:
        cls.check_schema(schema)
    except impl.exceptions.SchemaError as e:
        return False, [("schema-err", e, spath)]
    resolver = None
    if case["base_uri"]:
        resolver = impl.validators.RefResolver(base_uri="file://" + tmp + "/", referrer=schema)
    ok = True
    todo = []
    if case["instances"]:
        for inst, p in zip(case["instances"], ipaths):
            todo.append((inst, p))
    else:
        todo.append((case["stdin"], "<stdin>"))
    for inst, p in todo:
        if inst["state"] != "json":
            ok = False
            units.append(("diag", p))
            continue
        v = cls(schema, resolver=resolver)
        errs = list(v.iter_errors(inst["value"]))
        if errs:
            ok = False
            for e in errs:
                units.append(("err", e, p))
        else:
            units.append(("success", p))
    return ok, units


HDR = re.compile(r"===\[(\w+)\]===\((.*?)\)===\n")


def compare(res, case, rc, out, err, ok, units, where):
    def fail(kind, detail):
        res.fail((where, kind), detail + " | rc=%r stdout=%r stderr=%r" % (rc, out[:300], err[:600]))
    if (rc == 0) != ok:
        fail("exit-status", "model says %s" % ("0" if ok else "non-zero"))
    if rc not in (0, 1, True, False) and where == "in-process":
        pass
    if case["output"] == "plain":
        if out != "":
            fail("plain-writes-stdout", "")
        fmt = case["error_format"] if case["error_format"] is not None else "{error.instance}: {error.message}\n"
        pos = 0
        for u in units:
            if u[0] in ("err", "schema-err"):
                chunk = fmt.format(error=u[1])
                if err[pos:pos + len(chunk)] != chunk:
                    fail("stderr-error-chunk", "expected %r at offset %d" % (chunk[:200], pos))
                    return
                pos += len(chunk)
            elif u[0] == "diag":
                nl = err.find("\n", pos)
                line = err[pos:nl + 1] if nl >= 0 else err[pos:]
                shown = "<stdin>" if u[1] == "<stdin>" else u[1]
                if nl < 0 or shown not in line:
                    fail("stderr-diagnostic", "expected one diagnostic line naming %r at offset %d" % (shown, pos))
                    return
                pos = nl + 1
        if err[pos:] != "":
            fail("stderr-extra-output", "unexpected trailing %r" % err[pos:pos + 200])
    else:
        want_out = "".join("===[SUCCESS]===(%s)===\n" % u[1] for u in units if u[0] == "success")
        if out != want_out:
            fail("pretty-stdout", "expected %r" % want_out[:300])
        hdrs = HDR.findall(err)
        want = []
        for u in units:
            if u[0] == "err":
                want.append(("ValidationError", u[2]))
            elif u[0] == "schema-err":
                want.append(("SchemaError", u[2]))
            elif u[0] == "diag":
                want.append((None, u[1]))
        if len(hdrs) != len(want) or any(w[1] != h[1] or (w[0] and w[0] != h[0]) for w, h in zip(want, hdrs)):
            fail("pretty-stderr-headers", "expected %r got %r" % (want[:6], hdrs[:6]))
        else:
            for u in units:
                if u[0] in ("err", "schema-err") and u[1].message not in err:
                    fail("pretty-stderr-message", "message %r missing" % u[1].message[:100])


class C19(Prop):
    ID = "C19"
    QUICK = 250
    THOROUGH = 6000
    RULE = ("case = scenario: schema file state {valid 70%, missing, not JSON, not UTF-8, invalid schema} x 0-5 instance "
            "files each {JSON value drawn for the schema, missing, not JSON, not UTF-8} in drawn order (or one instance "
            "on stdin) x {plain, pretty} x --error-format with unique delimiters x --validator x --base-uri with a "
            "relative file reference.  Files are written to a fresh temporary directory; the CLI is run in-process "
            "through cli.run(cli.parse_args(argv)) (1 in 40 also as `python -m jsonschema`).  Model from library calls: "
            "status 0 iff everything loads and is valid; plain stderr == in-order concatenation of formatted library "
            "errors and one diagnostic line per unloadable file; pretty stdout == one success header per valid "
            "instance; pretty stderr headers in order.  Non-trivial: >= 2 instances of different states with a good "
            "instance after a bad one, or a schema failure.")
    ASSUMPTIONS = ["the wording of diagnostics is not asserted, only that each names its file and is one unit",
                   "which non-zero status is returned is not asserted"]
    GATES = {"local-ref": 100, "hostile-file-name": 100, "good-after-bad": 100, "schema:invalid": 20, "schema:missing": 20, "pretty": 200, "base-uri": 50,
             "explicit-validator": 100, "stdin": 30, "inst:notutf8": 30}
    MIN_NONTRIVIAL = 200

    def strategy(self, tier):
        return cases()

    def check(self, case):
        from jsonschema import cli
        res = Result()
        try:
            wf = (case["schema_state"] in ("valid", "missing", "notjson", "invalid", "notutf8")
                  and case["output"] in ("plain", "pretty") and case["draft"] in impl.DRAFTS
                  and case["validator"] in (None, 3, 4, 6, 7) and isinstance(case["instances"], list)
                  and all(i["state"] in ("json", "missing", "notjson", "notutf8") and "/" not in i.get("name", "")
                          and "\x00" not in i.get("name", "") and len(i.get("name", "")) < 40 for i in case["instances"])
                  and (case["instances"] or (isinstance(case["stdin"], dict) and case["stdin"]["state"] in ("json", "notjson", "blank")))
                  and (case["error_format"] is None or (case["output"] == "plain" and case["error_format"] in FORMATS))
                  and isinstance(case["base_uri"], bool))
        except Exception:
            wf = False
        if not wf:
            res.excluded = "malformed-scenario"
            return res
        if case["schema_state"] == "valid" and isinstance(case["schema"], dict) and walk.has_ref(case["draft"], case["schema"]):
            res.excluded = "has-ref"
            return res
        tmp = tempfile.mkdtemp(prefix="c19_")
        try:
            argv, stdin_text, spath, ipaths, schema = materialise(case, tmp)
            try:
                ok, units = expected(case, tmp, spath, ipaths, schema)
            except Exception as e:
                res.excluded = "library-raises(%s)" % impl.tname(e)
                return res
            fmt_ = case["error_format"] or ""
            if "path[0]" in fmt_ and any((u[0] == "schema-err") or (u[0] == "err" and not list(u[1].path)) for u in units):
                res.excluded = "error-format-not-applicable-to-these-errors"
                return res
            out, err = io.StringIO(), io.StringIO()
            cwd0 = os.getcwd()
            os.chdir(tmp)
            try:
                rc = cli.run(cli.parse_args(argv), stdout=out, stderr=err, stdin=io.StringIO(stdin_text))
            except BaseException as e:
                res.fail(("in-process", "raises", impl.tname(e)), "argv=%r raised %r" % (argv, e))
                rc = None
            finally:
                os.chdir(cwd0)
            if rc is not None:
                compare(res, case, rc, out.getvalue(), err.getvalue(), ok, units, "in-process")
            if case.get("subprocess"):
                res.labels.append("subprocess")
                env = dict(os.environ, PYTHONPATH=harness.REPO)
                pr = subprocess.run([sys.executable, "-m", "jsonschema"] + argv, input=stdin_text, env=env, cwd=tmp,
                                    stdout=subprocess.PIPE, stderr=subprocess.PIPE, text=True, timeout=60)
                if "Traceback (most recent call last)" in pr.stderr and case["output"] == "plain":
                    res.fail(("subprocess", "traceback"), pr.stderr[-400:])
                else:
                    compare(res, case, pr.returncode, pr.stdout, pr.stderr, ok, units, "subprocess")
        finally:
            shutil.rmtree(tmp, ignore_errors=True)
        states = [i["state"] for i in case["instances"]]
        kinds = []
        good_after_bad = False
        seen_bad = False
        for u in units:
            if u[0] in ("diag", "err"):
                seen_bad = True
            elif u[0] == "success" and seen_bad:
                good_after_bad = True
        if good_after_bad:
            res.labels.append("good-after-bad")
        res.labels.append("schema:" + case["schema_state"])
        if case["output"] == "pretty":
            res.labels.append("pretty")
        if case["base_uri"] and case["schema_state"] == "valid":
            res.labels.append("base-uri")
            if case.get("id_redirect"):
                res.labels.append("base-uri+own-id")
        if case["validator"]:
            res.labels.append("explicit-validator")
        if case["stdin"] is not None:
            res.labels.append("stdin")
        if case.get("local_ref") and not case["base_uri"] and case["schema_state"] == "valid":
            res.labels.append("local-ref")
        for s_ in set(states):
            res.labels.append("inst:" + s_)
        if any(i.get("name") for i in case["instances"]):
            res.labels.append("hostile-file-name")
        res.nontrivial = good_after_bad or case["schema_state"] != "valid" or len(set(u[0] for u in units)) >= 2
        return res


PROP = C19()
