"""C15 — reference retrieval and caching are transparent, frugal and offline-safe
(model-based stateful testing over a family of resolvers in lock-step, with counting / failing handlers)."""
import copy
from functools import lru_cache

from hypothesis import strategies as st

from .. import impl, netstub
from ..harness import Prop, Result
from ..gen import worlds as GW

DOCS = ["http://ex.test/d0.json", "http://ex.test/D0.json", "http://ex.test/dir/d2.json", "http://ex.test/d1.json",
        "http://ex.test/folder/",          # a URI may end in a slash; it is not the URI without it
        "http://ex.test/d\u00e9 1.json"]    # an IRI with a blank, used as is by whoever wrote the reference
STORED = ["http://ex.test/stored.json", "http://ex.test/stored/"]
META = {3: "http://json-schema.org/draft-03/schema", 4: "http://json-schema.org/draft-04/schema",
        6: "http://json-schema.org/draft-06/schema", 7: "http://json-schema.org/draft-07/schema"}
META_FRAGS = ["", "#", "#/properties/type", "#/definitions/positiveInteger", "#/definitions/nonNegativeInteger",
              "#/properties/minLength", "#/properties/items"]
EXC = {"OSError": OSError, "ValueError": ValueError, "KeyError": KeyError, "Custom": None}


class CustomFailure(Exception):
    pass


EXC["Custom"] = CustomFailure
leaf = GW.leaf


@st.composite
def cases(draw):
    d = draw(st.sampled_from(impl.DRAFTS))
    n = draw(st.integers(1, 4))
    docs, behaviour = {}, {}
    pick = draw(st.integers(0, 5))
    for u in (DOCS[:n] if pick >= 2 else [DOCS[4 + pick]] + DOCS[:n - 1]):
        docs[u] = {"definitions": {"a": draw(leaf), "b": draw(leaf), "x/y": draw(leaf), "": draw(leaf)}}
        docs[u].update(draw(leaf))
        if draw(st.integers(0, 4)) == 0:
            # degenerate but legal documents: the empty schema, and (draft 6+) the boolean schemas
            docs[u] = draw(st.sampled_from([{}, {}, True, False] if d >= 6 else [{}]))
        behaviour[u] = {"mode": draw(st.sampled_from(["ok", "ok", "fail-once", "fail-always"])),
                        "exc": draw(st.sampled_from(sorted(EXC)))}
    us = sorted(docs)
    if len(us) >= 2 and draw(st.integers(0, 3)) == 0 and isinstance(docs[us[0]], dict):
        # a copy that still carries the id of the place it was copied from -- where another document lives
        docs[us[0]][impl.IDKW[d]] = us[1]
    for i, u in enumerate(us):
        # a reference from inside one retrieved document to the next one: a failure can now strike while the
        # first document's scope is in force
        if len(us) >= 2 and isinstance(docs[u], dict) and "definitions" in docs[u] and draw(st.booleans()):
            docs[u]["definitions"]["r"] = {"$ref": us[(i + 1) % len(us)] + "#/definitions/a"}
    bulk = draw(st.sampled_from([0, 0, 0, 0, 0, 70]))
    for i in range(bulk):
        # dozens of further documents, all well-behaved: nothing that was local or already fetched may be forgotten
        # because of them
        u = "http://ex.test/bulk/%d.json" % i
        docs[u] = {"definitions": {"a": {}}, "type": ["integer", "string", "null", "object", "array", "boolean", "number"]}
        behaviour[u] = {"mode": "ok", "exc": "OSError"}
    store_doc = draw(st.sampled_from([None, None, STORED[0], STORED[0], STORED[1]]))
    if store_doc:
        docs[store_doc] = {"definitions": {"a": draw(leaf), "": draw(leaf)}}
    urls = sorted(u for u in docs if "/bulk/" not in u)
    spellings = []
    for u in urls:
        spellings += [u, u + "#", u + "#/definitions/a", u + "#/definitions/b", u + "#/definitions/x~1y",
                      u + "#/definitions/x%7E1y", u + "#/definitions/nope", u + "#/definitions/", u + "#/definitions/r"]
    schemas = []
    for _ in range(draw(st.integers(1, 3))):
        refs = draw(st.lists(st.sampled_from(spellings), min_size=1, max_size=4))
        metas = [META[d] + draw(st.sampled_from(META_FRAGS))       # evaluated: the case's own draft only
                 for _ in range(draw(st.integers(0, 2)))]
        body = {"properties": dict(("p%d" % i, {"$ref": r}) for i, r in enumerate(refs))}
        if metas:
            body["definitions"] = dict(("m%d" % i, {"$ref": r}) for i, r in enumerate(metas))
            body["properties"]["meta"] = {"$ref": "#/definitions/m0"}
        if draw(st.booleans()):
            body["items"] = {"$ref": draw(st.sampled_from(spellings))}
        if bulk and d >= 4:
            body["allOf"] = [{"$ref": "http://ex.test/bulk/%d.json" % i} for i in range(bulk)]
        elif bulk:
            body["extends"] = [{"$ref": "http://ex.test/bulk/%d.json" % i} for i in range(bulk)]
        schemas.append(body)
    insts = draw(st.lists(st.one_of(
        st.dictionaries(st.sampled_from(["p0", "p1", "p2", "p3", "meta"]), GW.inst_scalar, max_size=4),
        st.lists(GW.inst_scalar, max_size=3), GW.inst_scalar), min_size=2, max_size=4))
    steps = []
    for _ in range(draw(st.integers(2, 12))):
        k = draw(st.integers(0, 7))
        if k == 7:
            # a direct retrieval (pre-warming / refreshing the resolver), documented to record the document when
            # caching is on
            steps.append(["remote", draw(st.sampled_from(sorted(behaviour)))])
        elif k < 2:
            pool = spellings + [META[dd] + f for dd in impl.DRAFTS for f in ("", "#", "#/properties/type")]
            steps.append(["resolve", draw(st.sampled_from(pool))])
        else:
            steps.append(["validate", draw(st.integers(0, 2)), draw(st.integers(0, 3))])
    return {"draft": d, "docs": docs, "behaviour": behaviour, "stored": [store_doc] if store_doc else [],
            "stored_hash": draw(st.booleans()), "stored_upper_scheme": draw(st.integers(0, 3)) == 0, "schemas": schemas, "instances": insts, "steps": steps}


class CountingHandler(object):
    def __init__(self, case, log):
        self.case = case
        self.calls = []          # (uri, outcome)
        self.log = log

    def __len__(self):
        return len(self.calls)          # a recording fetcher that is "empty" (falsy) until its first call: still a handler

    def __call__(self, uri):
        u = uri.split("#")[0]
        b = self.case["behaviour"].get(u)
        prior = sum(1 for c in self.calls if c[0] == u)
        if b is None:
            self.calls.append((u, "unknown"))
            raise OSError("unknown document " + uri)
        if b["mode"] == "fail-always" or (b["mode"] == "fail-once" and prior == 0):
            self.calls.append((u, "fail"))
            raise EXC[b["exc"]]("scripted retrieval failure for " + uri)
        self.calls.append((u, "ok"))
        return copy.deepcopy(self.case["docs"][u])


MEMBERS = [("cache-on/default", True, "default"), ("cache-off/default", False, "default"),
           ("cache-on/passthrough", True, "passthrough"), ("cache-off/passthrough", False, "passthrough"),
           ("cache-on/lru1", True, "lru1"), ("cache-off/lru1", False, "lru1"),
           ("documented-defaults", True, "all-defaults")]


def make_member(case, schema, cache_remote, caches):
    d = case["draft"]
    cls = impl.CLS[d]
    h = CountingHandler(case, None)
    def key(u):
        # spellings of one and the same URI that the store's key normalisation makes equal: a trailing empty
        # fragment, the scheme in capitals
        if case.get("stored_upper_scheme") and u.startswith("http://"):
            u = "HTTP://" + u[len("http://"):]
        return u + ("#" if case.get("stored_hash") else "")
    store = dict((key(u), copy.deepcopy(case["docs"][u])) for u in case["stored"])
    kw = {}
    RefResolver = impl.validators.RefResolver
    root = copy.deepcopy(schema)
    if caches == "all-defaults":
        # no cache argument at all: the documented default is to cache remote documents
        r = RefResolver("", root, store=store, handlers={"http": h})
    elif caches == "default":
        r = RefResolver("", root, store=store, cache_remote=cache_remote, handlers={"http": h})
    else:
        from urllib.parse import urljoin
        holder = {}
        if caches == "passthrough":
            uj = urljoin
            rc = lambda url: holder["r"].resolve_from_url(url)      # noqa: E731  (bound per member)
        else:
            uj = lru_cache(1)(urljoin)
            rc = lru_cache(1)(lambda url: holder["r"].resolve_from_url(url))
        r = RefResolver("", root, store=store, cache_remote=cache_remote, handlers={"http": h},
                        urljoin_cache=uj, remote_cache=rc)
        holder["r"] = r
    return {"resolver": r, "handler": h, "validator": cls(root, resolver=r), "store0": set(r.store)}


class C15(Prop):
    ID = "C15"
    QUICK = 800
    THOROUGH = 6000
    RULE = ("case = 1-3 external documents behind counting handlers with scripted behaviour {succeeds, fails on the "
            "first call then succeeds, always fails} x exception type {OSError, ValueError, KeyError, custom}, an "
            "optional store document, 1-3 schemas referring to them through several spellings (no fragment, '#', "
            "pointer fragments, percent-encoded, unresolvable pointer) and to the bundled metaschemas, and a history "
            "of 2-12 steps (validate instance i with schema j | resolver.resolve(url) | resolver.resolve_remote(uri)); one document URI ends in '/'.  Every step is applied in "
            "lock-step to 7 resolvers per schema: cache_remote on/off x {default lru caches, pass-through caches, "
            "lru_cache(1) caches} and one built with no cache arguments at all (documented default: caching on).  Oracle: with a scripted failure model, results are identical across members "
            "sharing the same failure history; cache_remote=True: at most one successful fetch per document per "
            "resolver; cache_remote=False: store keys unchanged; every handler failure surfaces as "
            "RefResolutionError; metaschema and store references cause zero handler / urlopen / requests calls.  "
            "Non-trivial: a document used through >= 2 distinct URL strings over >= 2 validations.")
    ASSUMPTIONS = ["members are compared by outcome (errors / exception type); when a fail-once handler makes members "
                   "diverge legitimately (different fetch counts), the comparison is against the per-member model"]
    GATES = {"multi-spelling": 100, "meta-ref": 100, "handler-failure": 100, "stored-doc": 50, "reference-verdict": 1000}
    MIN_NONTRIVIAL = 100

    def strategy(self, tier):
        return cases()

    def model_resolve(self, case, m, url, calls_before):
        """Independent model of resolver.resolve(url) for this member at this point of its history."""
        from ..oracle import pointer as optr
        u, _, frag = url.partition("#")
        if "json-schema.org" in u:
            doc = GW.meta_docs().get(u)
            if doc is None:
                return None
        elif u in case["stored"]:
            doc = case["docs"][u]
        elif u in case["behaviour"]:
            b = case["behaviour"][u]
            prior = [c for c in m["handler"].calls[:calls_before] if c[0] == u]
            got_before = any(c[1] == "ok" for c in prior)
            if b["mode"] == "fail-always" or (b["mode"] == "fail-once" and not prior):
                return ("RefResolutionError",)
            if not got_before and b["mode"] == "fail-once" and len(prior) == 0:
                return ("RefResolutionError",)
            doc = case["docs"][u]
        else:
            return None
        try:
            target = optr.evaluate(doc, optr.decode_fragment(frag))
        except optr.PointerError:
            return ("RefResolutionError",)
        return ("ok", url, impl.cj(target))

    def reference_verdict(self, case, res, schema, x, out, name, n, step):
        """Transparency against an independent evaluator: when no retrieval failed during this step, the verdict
        is the one O-SPEC gives with every document at hand; and if every reference of the schema designates
        something (statically, transitively) and no document is permanently down, nothing may be unresolvable."""
        from ..oracle import pointer as optr, spec
        d = case["draft"]
        docs = dict(GW.meta_docs())
        docs.update(case["docs"])
        docs[""] = schema
        if out[0] == "ok":
            ctx = spec.Ctx(d, resolver=spec.WorldResolver(docs))
            try:
                want = spec.valid(ctx, schema, x, "")
            except (spec.Unsupported, spec.Unresolvable, RecursionError, optr.PointerError):
                return
            if ctx.inexact:
                return
            res.labels.append("reference-verdict")
            if want != (not out[1]):
                res.fail(("verdict-differs-from-reference", name, "impl-accepts" if not out[1] else "impl-rejects"),
                         "step %d %r (history %r): O-SPEC with every document at hand says %s, member reports %d errors" % (
                             n, step, case["steps"][:n], "valid" if want else "invalid", len(out[1])))
            return
        if out[0] != "RefResolutionError" or any(b["mode"] == "fail-always" for b in case["behaviour"].values()):
            return
        todo = [v["$ref"] for v in schema["properties"].values()] + ([schema["items"]["$ref"]] if "items" in schema else []) \
            + [v["$ref"] for v in (schema.get("definitions") or {}).values()] \
            + [v["$ref"] for v in schema.get("allOf", schema.get("extends", []))]
        seen = set()
        while todo:
            r = todo.pop()
            if r in seen:
                continue
            seen.add(r)
            u, _, frag = r.partition("#")
            doc = docs.get(u)
            if doc is None:
                return
            try:
                t = optr.evaluate(doc, optr.decode_fragment(frag))
            except optr.PointerError:
                return              # something designates nothing: an unresolvable reference is legitimate
            if isinstance(t, dict) and isinstance(t.get("$ref"), str):
                todo.append(t["$ref"] if not t["$ref"].startswith("#") else u + t["$ref"])
        res.fail(("unresolvable-although-everything-resolves", name),
                 "step %d %r (history %r): RefResolutionError, but no retrieval failed in this step, no document is "
                 "permanently down and every reference designates something" % (n, step, case["steps"][:n]))

    def check(self, case):
        res = Result()
        res.evals = 0
        try:
            d = case["draft"]
            cls = impl.CLS[d]
            schemas = case["schemas"]
            for s in schemas:
                try:
                    cls.check_schema(s)
                except impl.exceptions.SchemaError:
                    raise
                except Exception as e:
                    # checking a schema only needs the class's own metaschema, which is served locally
                    res.fail(("check_schema-cannot-reach-its-metaschema", impl.tname(e)),
                             "check_schema(%s) raised %r; network attempts: %r" % (impl.cj(s)[:200], e, netstub.CALLS[:2]))
                    netstub.reset()
                    return res
            assert case["instances"] and case["steps"]
            for sc in schemas:
                for m in (sc.get("definitions") or {}).values():
                    assert m["$ref"].split("#")[0] == META[d]
            assert all(b["mode"] in ("ok", "fail-once", "fail-always") and b["exc"] in EXC
                       for b in case["behaviour"].values())
            assert all(u in case["docs"] for u in case["behaviour"]) and all(u in case["docs"] for u in case["stored"])
            for sc in schemas:
                for sub in list(sc["properties"].values()) + ([sc["items"]] if "items" in sc else []) + list(
                        sc.get("allOf", sc.get("extends", []))):
                    assert sub["$ref"].startswith("#/definitions/m") or sub["$ref"].split("#")[0] in case["docs"]
            for st_ in case["steps"]:
                if st_[0] == "remote":
                    assert st_[1] in case["behaviour"] and st_[1] not in case["stored"]
                if st_[0] == "resolve":
                    assert st_[1].split("#")[0] in case["docs"] or "json-schema.org" in st_[1]
        except Exception:
            res.excluded = "malformed"
            return res
        netstub.reset()
        families = [[make_member(case, s, cr, cc) for _, cr, cc in MEMBERS] for s in schemas]
        used = {}
        nvalid = 0
        for n, step in enumerate(case["steps"]):
            res.evals += 1
            j = step[1] % len(schemas) if step[0] == "validate" else 0
            fam = families[j]
            outcomes = []
            for (name, cr, cc), m in zip(MEMBERS, fam):
                before = len(m["handler"].calls)
                try:
                    if step[0] == "validate":
                        x = copy.deepcopy(case["instances"][step[2] % len(case["instances"])])
                        out = ("ok", tuple(sorted(impl.errkey(e) for e in m["validator"].iter_errors(x))))
                    elif step[0] == "resolve":
                        url, sub = m["resolver"].resolve(step[1])
                        out = ("ok", url, impl.cj(sub))
                    elif step[0] == "remote":
                        try:
                            got_doc = m["resolver"].resolve_remote(step[1])
                        except Exception as e:      # a direct retrieval hands the handler's own failure on
                            if not any(c[1] != "ok" for c in m["handler"].calls[before:]):
                                raise
                            out = ("retrieval-failed",)
                        else:
                            out = ("ok", impl.cj(got_doc))
                            if out[1] != impl.cj(case["docs"][step[1]]):
                                res.fail(("resolve_remote-returns-another-document", name), "%s -> %s" % (step[1], out[1][:200]))
                                return res
                            if cr and (step[1] not in m["resolver"].store or impl.cj(m["resolver"].store[step[1]]) != out[1]):
                                res.fail(("resolve_remote-does-not-record-the-document", name),
                                         "after resolve_remote(%r) with caching on the store has %s" % (
                                             step[1], "nothing" if step[1] not in m["resolver"].store else "another document"))
                                return res
                    else:
                        res.excluded = "malformed-step"
                        return res
                except impl.exceptions.RefResolutionError:
                    out = ("RefResolutionError",)
                except RecursionError:
                    res.excluded = "non-terminating"
                    return res
                except (IndexError, TypeError, AttributeError) as e:
                    if not isinstance(step[1], (str, int)):
                        res.excluded = "malformed-step"
                        return res
                    res.fail(("raises", name, impl.tname(e)), "step %d %r: %r" % (n, step, e))
                    return res
                except Exception as e:
                    res.fail(("handler-failure-not-wrapped", name, impl.tname(e)),
                             "step %d %r raised %r instead of RefResolutionError" % (n, step, e))
                    return res
                new = m["handler"].calls[before:]
                failed_now = any(c[1] != "ok" for c in new)
                if step[0] == "validate" and not failed_now:
                    self.reference_verdict(case, res, schemas[j], x, out, name, n, step)
                    if res.failures:
                        return res
                if any(c[1] == "unknown" for c in new):
                    res.fail(("handler-asked-for-a-uri-nothing-names", name), "step %d %r: handler called with %r" % (
                        n, step, [c[0] for c in new if c[1] == "unknown"][:3]))
                    return res
                if step[0] == "resolve":
                    want = self.model_resolve(case, m, step[1], before)
                    if want is not None and want != out:
                        res.fail(("resolve-differs-from-model", name, out[0], want[0]),
                                 "step %d resolve(%r) (history %r): got %s, model %s" % (
                                     n, step[1], case["steps"][:n], str(out)[:200], str(want)[:200]))
                        return res
                outcomes.append((name, out, failed_now))
                if failed_now:
                    res.labels.append("handler-failure")
                    if out[0] != "RefResolutionError" and step[0] == "resolve":
                        res.fail(("handler-failure-swallowed", name), "step %d %r -> %r" % (n, step, str(out)[:100]))
                # (2) frugality with caching on: once a document has been retrieved (by a reference or by a direct
                # retrieval), no reference makes the handler run for it again; only direct retrievals may repeat
                if cr and step[0] != "remote":
                    had = set(u for u, o in m["handler"].calls[:before] if o == "ok")
                    seen_now = set()
                    for u, o in new:
                        if o == "ok" and (u in had or u in seen_now):
                            res.fail(("fetched-more-than-once", name), "document %s fetched again although already "
                                     "retrieved; history %r" % (u, case["steps"][:n + 1]))
                            return res
                        if o == "ok":
                            seen_now.add(u)
                # (3) store untouched with caching off
                if not cr and set(m["resolver"].store) != m["store0"]:
                    res.fail(("store-grows-with-cache-off", name), "new keys %r" % sorted(
                        set(m["resolver"].store) - m["store0"]))
                    return res
                # (5) stored documents and metaschemas never reach a handler
                for u, o in new:
                    if u in case["stored"] or "json-schema.org" in u:
                        res.fail(("retrieval-of-local-document", name), "handler called for %s" % u)
                        return res
            if netstub.CALLS:
                res.fail(("network-attempt",), "%r" % (netstub.CALLS[:3],))
                netstub.reset()
                return res
            # (1) transparency: members whose step saw no scripted failure must agree with each other;
            # a member that hit a failure right now legitimately reports RefResolutionError
            clean = [o for o in outcomes if not o[2]]
            if clean:
                ref = clean[0][1]
                for name, out, _ in clean[1:]:
                    if out != ref:
                        # a fail-always document makes every member fail the same way; fail-once may leave one
                        # member with the document and another still failing only while failures are being hit
                        res.fail(("members-disagree", clean[0][0] + " vs " + name),
                                 "step %d %r (history %r):\n %s -> %s\n %s -> %s" % (
                                     n, step, case["steps"][:n], clean[0][0], str(ref)[:200], name, str(out)[:200]))
                        return res
            if step[0] == "validate":
                nvalid += 1
            for sch in ([schemas[j]] if step[0] == "validate" else []):
                for ref in [v["$ref"] for v in sch["properties"].values()] + (
                        [sch["items"]["$ref"]] if "items" in sch else []):
                    used.setdefault(ref.split("#")[0], set()).add(ref)
        if any("definitions" in s for s in schemas):
            res.labels.append("meta-ref")
        if case["stored"]:
            res.labels.append("stored-doc")
        if any(len(v) >= 2 for v in used.values()) and nvalid >= 2:
            res.labels.append("multi-spelling")
            res.nontrivial = True
        return res


PROP = C15()
