"""C13 — built-in format checkers decide their grammars exactly and never raise
(reference model: hand-written recognisers O-FMT; finite token products enumerated)."""
import itertools
import re

from hypothesis import strategies as st

from .. import harness, impl
from ..harness import Prop, Result
from ..oracle import formats as ofmt

SEEDS = {
    "ipv4": ["1.2.3.4", "0.0.0.0", "255.255.255.255", "256.1.1.1", "1.2.3", "1.2.3.4.5", "01.2.3.4", "1.2.3.04",
             "127.0.0.1", "1..3.4", "1.2.3.4 ", " 1.2.3.4", "1.2.3.4\n", "0x7f.0.0.1", "1e0.2.3.4", "192.168.1.1/24",
             "1.2.3.-4", "+1.2.3.4", "١.2.3.4", "１.2.3.4", "999.1.1.1", "10.0.0.00", "1.2.3.4.", ".1.2.3.4",
             "2130706433", "1_0.2.3.4", ""],
    "ipv6": ["::", "::1", "1::", "1:2:3:4:5:6:7:8", "1:2:3:4:5:6:7", "1:2:3:4:5:6:7:8:9", "::ffff:1.2.3.4",
             "1:2:3:4:5:6:1.2.3.4", "1:2:3:4:5:6:7:1.2.3.4", "fe80::1%eth0", "fe80::1%1", "::1/64", "[::1]", "1::2::3",
             ":::", "12345::", "g::", "::1.2.3", "::1.2.3.256", "1:2:3:4:5:6:7::", "::2:3:4:5:6:7:8", "1::8",
             "::ffff:01.2.3.4", ":1", "1:", "", "::1 ", " ::1", "::1\n", "１::", "1:2:3:4:5:6:7:8%", "::%", "::1%"],
    "date": ["2020-01-01", "2020-02-29", "2019-02-29", "2000-02-29", "1900-02-29", "2020-13-01", "2020-00-10",
             "2020-01-32", "2020-04-31", "2020-1-01", "2020-01-1", "20200101", "2020-W01-1", "2020-W01", "2020W011",
             "2020-001", "2020001", "2020-01-01T00:00:00", "2020-01-01 ", " 2020-01-01", "2020-01-01\n", "2020/01/01",
             "02020-01-01", "-2020-01-01", "+2020-01-01", "٢020-01-01", "2020-０１-01", "9999-12-31",
             "0001-01-01", "2020-12-31", "2020-11-31", "202-01-01", "", "2020-06-30Z"],
    "email": ["a@b", "@", "ab", "", "a@", "@b", "a b@c", "a@@b", "＠", "a\n@b", "a" * 65 + "@example.com", "a" * 300 + "@b",
              "a" * 300, "x" * 64 + "@" + "y" * 255],
    "idn-email": ["a@b", "ab", "", "é@é"],
    "regex": ["a", "", "(", ")", "a{2}", "a{99999999999}", "a{2,1}", "(?a)(?u)", "(?a)", "(?a)\\w+", "(?ai)^[a-z]\\d*$", "(?u)\\w", "(?L)a",
              "a" * 300, "(" * 90 + ")" * 90, "a{" + "9" * 4301 + "}", "[", "[a-", "\\", "*", "a**",
              "(?P<n>a)(?P<n>b)", "(?P<n>a)(?P=n)", "\\1", "(a)\\2", "(?i)a", "a(?i)", "(?<=a+)b", "a{1,99999999999}",
              "\\N{BAD}", "[\\d-a]", "(?#", "(?P<1>a)", "\\8", "x{4294967296}", "(?z)", "(?-)", "(?:" * 30 + ")" * 30],
    "time": ["12:00:00", "24:00:00", "12:60:00", "1:2:3", "12:00", "", "12:00:00Z", "١٢:00:00", "12:00:61"],
    "idn-hostname": ["example.com", "", ".", "a..b", "-a.com", "é.com", "xn--a", "a" * 64 + ".com", "。", "a b",
                     "퟿", "ـ", "a_b"],
}
SEEDS["ipv4"] += ["1" * 40 + "e", "3.14159265358979323846264338327950288419716939937510e", "1." * 30 + "x"]
SEEDS["ipv6"] += ["f" * 40 + "g", "1:" * 30 + "x"]
SEEDS["date"] += ["2" * 40 + "-", "2020-01-" + "0" * 40 + "x"]
SEEDS["time"] += ["2147483648:00:00", "00:4294967296:00", "-1:00:00", "99999999999999999999:0:0", "12:00:00" + "0" * 40 + "x"]
SEEDS["email"] += ["a@@b", "\"a@b\"@c", "user@host@relay"]
SEEDS["ip-address"] = SEEDS["ipv4"]
ALPHABET = list("0123456789abcdefABCDEFxXgG.:-/%+_ \n\x00TWZ@()[]{}*?\\,") + ["٤", "１", "²", "١",
                                                                          "\U0001D7D8", "​", "é"]
ORACLES = {"ipv4": ofmt.ipv4, "ip-address": ofmt.ipv4, "ipv6": ofmt.ipv6, "date": ofmt.date,
           "email": lambda s: "@" in s, "idn-email": lambda s: "@" in s}


def regex_oracle(s):
    try:
        re.compile(s)
    except Exception:
        return False
    return True


ORACLES["regex"] = regex_oracle


@st.composite
def mutated(draw):
    fmt = draw(st.sampled_from(sorted(SEEDS)))
    s = draw(st.sampled_from(SEEDS[fmt]))
    nm = draw(st.integers(0, 3))
    for _ in range(nm):
        op = draw(st.integers(0, 3))
        pos = draw(st.integers(0, max(0, len(s))))
        ch = draw(st.sampled_from(ALPHABET))
        if op == 0:
            s = s[:pos] + ch + s[pos:]
        elif op == 1 and s:
            pos = min(pos, len(s) - 1)
            s = s[:pos] + s[pos + 1:]
        elif op == 2 and s:
            pos = min(pos, len(s) - 1)
            s = s[:pos] + ch + s[pos + 1:]
        elif op == 3 and s:
            pos = min(pos, len(s) - 1)
            s = s[:pos] + s[pos] + s[pos:]
    return {"format": fmt, "string": s, "source": "mutation", "edits": nm}


REGEX_ATOMS = ["a", "b", ".", "[ab]", "[^a]", "\\d", "\\w", "\\b", "(", ")", "(?:", "(?P<n>", "(?=", "(?<=", "(?<!", "|",
               "*", "+", "?", "{2}", "{2,}", "{,3}", "{3,2}", "{99999999999}", "{1,99999999999}", "\\1", "\\2", "(?i)",
               "(?a)", "(?u)", "(?L)", "(?x)", "(?-i:", "^", "$", "[", "]", "\\", "\\N{DIGIT ONE}", "\\u00e9", "\\x",
               "[a-", "[[:alpha:]]", "(?P=n)", "(?(1)a|b)", "(?#c)", "{", "}"]


@st.composite
def regex_soup(draw):
    k = draw(st.integers(0, 2))
    if k == 0:
        depth = draw(st.integers(1, 50))
        s = "(" * depth + draw(st.sampled_from(["a", "", "a*", "."])) + ")" * draw(st.integers(max(0, depth - 1), depth))
    else:
        s = "".join(draw(st.lists(st.sampled_from(REGEX_ATOMS), max_size=12)))
    return {"format": "regex", "string": s, "source": "regex-grammar", "edits": 0}


@st.composite
def free_text(draw):
    fmt = draw(st.sampled_from(sorted(SEEDS)))
    s = draw(st.one_of(st.text(max_size=40), st.text(alphabet=ALPHABET, max_size=30),
                       st.text(min_size=200, max_size=2000)))
    return {"format": fmt, "string": s, "source": "text", "edits": 0}


IPV4_TOK = ["0", "00", "01", "1", "9", "10", "99", "100", "199", "249", "250", "255", "256", "260", "299", "300", "999",
            "1000", "", "-1", "+1", "1 ", "１", "٤", "1e0", "0x1", "1_0"]
HEX_TOK = ["0", "1", "a", "F", "ffff", "0000", "00000", "12345", "g", "", "1 ", "１", "-1", "fFfF"]
YEAR_TOK = ["2020", "2019", "2000", "1900", "0001", "9999", "202", "02020", "20 20", "２020", "+202", "-202", "2o20"]
MONTH_TOK = ["01", "02", "04", "12", "13", "00", "1", "001", "٠١", " 1", "W1", "W01", "1 "]
DAY_TOK = ["01", "28", "29", "30", "31", "32", "00", "1", "001", "０１", " 1", "1 ", "-1"]


def enum_strings(tier):
    """(format, string) over the finite token products (complete for ipv4/date; ipv6 bounded)."""
    toks = IPV4_TOK if tier == "thorough" else IPV4_TOK[:19]
    for n in (3, 4, 5):
        if n == 5 and tier != "thorough":
            toks = toks[:10]
        for parts in itertools.product(toks, repeat=n):
            yield "ipv4", ".".join(parts)
    for sep in ("-", "", "/", "-W"):
        for y, m, d in itertools.product(YEAR_TOK, MONTH_TOK, DAY_TOK):
            yield "date", y + sep + m + (sep if sep != "-W" else "-") + d
            yield "date", y + sep + m
    for y, m in itertools.product(YEAR_TOK, MONTH_TOK):
        yield "date", y + "-" + m + "-"
    # ipv6: k groups on each side of an optional '::', optional v4 tail and suffix
    groups = HEX_TOK if tier == "thorough" else HEX_TOK[:9]
    tails = ["", "1.2.3.4", "1.2.3", "256.1.1.1", "01.2.3.4"]
    sufs = ["", "%eth0", "/64", "]", "%", " "]
    for nl in range(0, 9):
        for nr in range(0, 9 - nl + 1):
            for mid in ("::", ":", ""):
                if mid == "" and nr:
                    continue
                for g in groups:
                    for tail in tails:
                        left = ":".join([g] * nl)
                        right = ":".join(["1"] * nr)
                        body = left + mid + right
                        if tail:
                            body = body + (":" if body and not body.endswith(":") else "") + tail
                        for suf in sufs:
                            yield "ipv6", body + suf
    for a, b, c in itertools.product(groups, repeat=3):
        yield "ipv6", a + "::" + b + ":" + c
        yield "ipv6", a + ":" + b + "::" + c
        yield "ipv6", "1:2:3:4:5:" + a + ":" + b + ":" + c


# Which built-in formats each checker object of THIS installation registers (no optional library except idna is
# installed).  The names are the ones the drafts' specifications give the formats (Draft 3: ip-address / date /
# time / regex / email; Draft 4 and 6: ipv4 / ipv6 / email / regex; Draft 7 adds date and idn-hostname).
# A checker object that silently loses one of them stops checking that format for its draft.
EXPECTED_REGISTRATION = {
    "FormatChecker()": ["date", "email", "idn-email", "idn-hostname", "ipv4", "ipv6", "regex", "time"],
    "draft3": ["date", "email", "idn-email", "ip-address", "ipv6", "regex", "time"],
    "draft4": ["email", "idn-email", "ipv4", "ipv6", "regex"],
    "draft6": ["email", "idn-email", "ipv4", "ipv6", "regex"],
    "draft7": ["date", "email", "idn-email", "idn-hostname", "ipv4", "ipv6", "regex"],
}


def judge(res, fmt, s, checkers=None):
    """Check one (format, string) against every checker object that knows the format."""
    objs = checkers or CHECKERS()
    verdicts = set()
    for cname, chk in objs:
        if fmt not in chk.checkers:
            if fmt in EXPECTED_REGISTRATION.get(cname, ()):
                res.fail(("format-not-registered", cname, fmt), "%s no longer knows the format %r" % (cname, fmt))
            continue
        res.evals += 1
        try:
            r = chk.conforms(s, fmt)
        except Exception as e:
            res.fail(("conforms-raises", fmt, impl.tname(e)), "%s.conforms(%r, %r) raised %r" % (cname, s[:200], fmt, e))
            continue
        if r is not True and r is not False:
            res.fail(("conforms-not-bool", fmt), "%r" % (r,))
        try:
            chk.check(s, fmt)
            ok = True
        except impl.exceptions.FormatError:
            ok = False
        except Exception as e:
            res.fail(("check-raises", fmt, impl.tname(e)), "%s.check(%r, %r) raised %r" % (cname, s[:200], fmt, e))
            continue
        if ok != r:
            res.fail(("conforms-vs-check", fmt), "%r" % (s[:200],))
        verdicts.add(r)
    if len(verdicts) > 1:
        res.fail(("checker-objects-disagree", fmt), "%r" % (s[:200],))
    orc = ORACLES.get(fmt)
    if orc is None or not verdicts:
        return None
    want = orc(s)
    if want is None:
        res.labels.append("dont-care:" + fmt)
        return None
    got = verdicts.pop()
    res.labels.append("%s:%s" % (fmt, "member" if want else "non-member"))
    if got != want:
        res.fail(("grammar", fmt, "accepts-non-member" if got else "rejects-member"),
                 "format %s string %r: implementation %s, grammar %s" % (fmt, s[:200], got, want))
    return want


_CH = []


def CHECKERS():
    if not _CH:
        js = impl.jsonschema
        _CH.extend([("FormatChecker()", js.FormatChecker()), ("draft3", js.draft3_format_checker),
                    ("draft4", js.draft4_format_checker), ("draft6", js.draft6_format_checker),
                    ("draft7", js.draft7_format_checker)])
    return _CH


def _enum_job(args):
    tier, shard, nshards = args
    harness.bind_repo()
    acc = harness.Acc()
    n = 0
    res = Result()
    res.evals = 0
    bad = {}
    members = 0
    for i, (fmt, s) in enumerate(enum_strings(tier)):
        if i % nshards != shard:
            continue
        n += 1
        before = len(res.failures)
        w = judge(res, fmt, s)
        if w:
            members += 1
        if len(res.failures) > before:
            for b, dtl in res.failures[before:]:
                bad.setdefault(b, (fmt, s, dtl))
            del res.failures[before:]
    acc.cases += n
    acc.evals += res.evals
    acc.labels.update(res.labels)
    acc.extra["enumerated_strings"] = n
    acc.extra["enumerated_members"] = members
    for b, (fmt, s, dtl) in bad.items():
        acc.failures[b] = [(len(s), {"format": fmt, "string": s, "source": "enumeration", "edits": 0}, dtl)]
    return acc


class C13(Prop):
    ID = "C13"
    WATCHDOG_IS_VIOLATION = True
    QUICK = 5000
    THOROUGH = 40000
    CHUNK = 10000
    RULE = ("case = (format name registered in this installation, string).  Sources: 1-3 single-character edits "
            "(insert/delete/substitute/duplicate from an alphabet of digits, hex letters, separators, whitespace, NUL, "
            "non-ASCII digits) of ~30 valid and invalid seeds per format; a regex token soup and nested groups; free "
            "text up to 2000 characters; and the complete products of octet / hex-group / year-month-day token pools "
            "(exhaustive for those sub-spaces).  Every checker object (FormatChecker() and the four draft checkers) is "
            "asked through conforms() and check(); the verdict is compared with hand-written recognisers for ipv4, "
            "ipv6, date, email, regex.  Non-trivial: the string is a member of the grammar or within 3 edits of a seed.")
    ASSUMPTIONS = ["regex: the grammar is 'what re.compile accepts' as the statement defines it",
                   "date year 0000 and leading zeros in the IPv4 tail of an IPv6 address are don't-cares",
                   "idn-hostname and Draft 3 time: never-raises half only",
                   "regex group nesting is bounded by 50 (RecursionError beyond ~500 is a platform limit)"]
    GATES = {"ipv4:member": 50, "ipv4:non-member": 500, "ipv6:member": 50, "ipv6:non-member": 500,
             "date:member": 50, "date:non-member": 500, "regex:member": 100, "regex:non-member": 100}
    MIN_NONTRIVIAL = 2000

    def strategy(self, tier):
        return st.one_of(mutated(), mutated(), mutated(), regex_soup(), free_text())

    def check(self, case):
        res = Result()
        res.evals = 0
        fmt, s = case["format"], case["string"]
        if not isinstance(s, str) or not isinstance(fmt, str):
            res.excluded = "not-a-string"
            return res
        try:
            s.encode("utf-8")
        except UnicodeEncodeError:
            res.excluded = "lone-surrogate"
            return res
        w = judge(res, fmt, s)
        res.labels.append("src:" + str(case.get("source")))
        res.nontrivial = bool(w) or case.get("source") in ("mutation", "regex-grammar", "enumeration")
        return res

    def extra_stages(self, tier, seed, acc):
        import multiprocessing as mp
        W = int(harness.os.environ.get("VERIF_WORKERS", "16"))
        ctx = mp.get_context("spawn")
        with ctx.Pool(W) as pool:
            for sub in pool.imap_unordered(_enum_job, [(tier, i, W) for i in range(W)]):
                n = acc.extra.get("enumerated_strings", 0)
                m = acc.extra.get("enumerated_members", 0)
                acc.merge(sub)
        if tier == "thorough":
            from ..fuzz import c13_fuzz
            corpus = [bytes([c13_fuzz.FORMATS.index(f) if f in c13_fuzz.FORMATS else 0, min(len(x), 80)]) + x.encode("utf-8")
                      for f in ("ipv4", "ipv6", "date", "regex") for x in SEEDS[f][:8]]
            harness.fuzz_stage(self, acc, "pbt.fuzz.c13_fuzz", seed, 400000, jobs=8, seeds_corpus=corpus,
                               dictionary=c13_fuzz.DICT, max_len=128)
        acc.extra["enumeration_exhaustive_over"] = "token products for ipv4, date and ipv6 listed in pbt/props/c13.py"


PROP = C13()
