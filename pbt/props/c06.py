"""C06 — each error locates itself truthfully in the instance and in the schema (validity predicate over
every error of the transitive context closure)."""
from hypothesis import strategies as st

from .. import impl
from ..gen import instances as GI, schemas as GS, walk, worlds as GW
from ..harness import Prop, Result
from ..oracle import spec
from ..oracle.equality import jeq

ARRAY_APPLICATORS = ("items", "additionalItems", "allOf", "anyOf", "oneOf", "extends", "type")


@st.composite
def cases(draw):
    if draw(st.integers(0, 9)) < 3:
        w = draw(GW.worlds())
        w["kind"] = "world"
        return w
    d = draw(st.sampled_from(impl.DRAFTS))
    s = draw(GS.root_schemas(d, 8))
    xs = draw(GI.instances_for(s, 3))
    return {"kind": "plain", "draft": d, "schema": s, "instances": xs, "probes": 24, "alias": draw(st.integers(0, 5)) == 0}


def closure(errors):
    out = []
    stack = list(errors)
    while stack:
        e = stack.pop()
        out.append(e)
        stack.extend(e.context)
    return out


def json_path(path):
    out = "$"
    for el in path:
        out += "[%d]" % el if isinstance(el, int) and not isinstance(el, bool) else "." + el
    return out


def same(a, b):
    if a is b:
        return True
    try:
        return jeq(a, b)
    except TypeError:
        return False


def check_errors(res, d, root_schema, x, errors, hop=None, tag=""):
    """hop(node, base) -> (designated schema, base) for reference objects (independent resolver)."""
    idkw = impl.IDKW[d]
    for e in closure(errors):
        ap = list(e.absolute_path)
        asp = list(e.absolute_schema_path)
        under_pn = "propertyNames" in asp
        d3req = d == 3 and e.validator == "required"
        false_schema = e.validator is None
        # (4) composition of absolute paths
        if e.parent is not None:
            if ap != list(e.parent.absolute_path) + list(e.relative_path):
                res.fail(("absolute_path-composition",), "%s %r" % (tag, ap))
            if asp != list(e.parent.absolute_schema_path) + list(e.relative_schema_path):
                res.fail(("absolute_schema_path-composition",), "%s %r" % (tag, asp))
            res.labels.append("in-context")
        if e.relative_path is not e.path or e.relative_schema_path is not e.schema_path:
            res.fail(("relative-is-path",), tag)
        # (5) json_path
        try:
            jp = e.json_path
        except Exception as ex:
            jp = "raised %r" % (ex,)
        if jp != json_path(ap):
            res.fail(("json_path",), "%s json_path=%r for path %r" % (tag, jp, ap))
        # (1) instance location
        if not under_pn and not d3req:
            v = x
            try:
                for el in ap:
                    if isinstance(v, list) and (not isinstance(el, int) or isinstance(el, bool)):
                        raise TypeError("non-integer index into array")
                    if isinstance(v, dict) and not isinstance(el, str):
                        raise TypeError("non-string member name")
                    v = v[el]
            except (KeyError, IndexError, TypeError) as ex:
                res.fail(("instance-path-unwalkable", str(e.validator)),
                         "%s path %r keyword %r schema_path %r: %r; instance=%s" % (tag, ap, e.validator, asp, ex, impl.cj(x)[:300]))
                v = None
            else:
                if not same(v, e.instance):
                    res.fail(("instance-path-wrong-value", str(e.validator)),
                             "%s path %r reaches %s but error.instance=%s (schema_path %r)" % (
                                 tag, ap, impl.cj(v)[:120], impl.cj(e.instance)[:120], asp))
        # (2) keyword bookkeeping
        if false_schema:
            if e.schema is not False or e.validator_value is not None:
                res.fail(("false-schema-fields",), "%s schema=%r value=%r" % (tag, e.schema, e.validator_value))
        else:
            if not asp or asp[-1] != e.validator:
                res.fail(("validator-not-last-of-schema_path", str(e.validator)), "%s %r vs %r" % (tag, e.validator, asp))
            if not d3req:
                if not isinstance(e.schema, dict) or e.validator not in e.schema:
                    res.fail(("validator-not-in-schema", str(e.validator)), "%s schema=%s" % (tag, impl.cj(e.schema)[:200]))
                elif not (e.schema[e.validator] is e.validator_value or same(e.schema[e.validator], e.validator_value)):
                    res.fail(("validator_value-mismatch", str(e.validator)), tag)
        # (3) schema path navigation from the root
        node = root_schema
        base = ""
        ok = True
        hops = 0
        for el in asp:
            n2 = 0
            while isinstance(node, dict) and "$ref" in node and hop is not None and n2 < 20:
                node, base = hop(node, base)
                hops += 1
                n2 += 1
            if isinstance(node, dict) and hop is not None:
                sid = node.get(idkw)
                if isinstance(sid, str) and sid:
                    from ..oracle import uri as ouri
                    base = ouri.join(base, sid)
            try:
                if isinstance(node, list):
                    if not isinstance(el, int) or isinstance(el, bool):
                        raise TypeError("non-integer index into a schema array")
                    node = node[el]
                elif isinstance(node, dict):
                    node = node[el]
                else:
                    raise TypeError("schema path continues below %r" % (node,))
            except (KeyError, IndexError, TypeError) as ex:
                res.fail(("schema-path-unwalkable", str(e.validator)),
                         "%s schema_path %r (at %r): %r; path %r" % (tag, asp, el, ex, ap))
                ok = False
                break
        if ok:
            if hops:
                res.labels.append("behind-ref")
            if false_schema:
                n2 = 0
                while isinstance(node, dict) and "$ref" in node and hop is not None and n2 < 20:
                    node, base = hop(node, base)
                    n2 += 1
                if node is not False:
                    res.fail(("false-schema-path",), "%s schema_path %r reaches %s" % (tag, asp, impl.cj(node)[:100]))
            elif not (node is e.validator_value or same(node, e.validator_value)):
                res.fail(("schema-path-wrong-value", str(e.validator)),
                         "%s schema_path %r reaches %s, validator_value=%s" % (
                             tag, asp, impl.cj(node)[:120], impl.cj(e.validator_value)[:120]))
        # classes
        if len(ap) >= 2:
            res.labels.append("deep-path")
        for i, el in enumerate(asp[:-1]):
            if el in ARRAY_APPLICATORS and i + 1 < len(asp) and isinstance(asp[i + 1], int) and asp[i + 1] >= 1:
                res.labels.append("d%d:%s:index>=1" % (d, el))
        for i, el in enumerate(ap):
            if isinstance(el, int) and el >= 1:
                res.labels.append("instance-index>=1")
                break


class C06(Prop):
    ID = "C06"
    QUICK = 1300
    THOROUGH = 16000
    RULE = ("cases as in C01 (draft, schema, drawn + schema-derived instances) plus reference worlds (30%); for every "
            "error in the transitive context closure: absolute_path walks from the instance to error.instance; the "
            "keyword is the last schema-path element, is in error.schema with error.validator_value; "
            "absolute_schema_path walks from the root schema (hopping through reference objects with an independent "
            "RFC 3986/6901 resolver) to validator_value; absolute = parent's absolute + relative; json_path renders "
            "absolute_path.  Carve-outs exactly as the property lists.  One evaluation per error.  Non-trivial: the "
            "case has an error with absolute path length >= 2, or element index >= 1, or inside a context, or behind a "
            "reference.")
    ASSUMPTIONS = ["Draft 3 `required`, propertyNames and false-schema errors are carved out as the property states"]
    GATES = {"deep-path": 300, "in-context": 300, "instance-index>=1": 300, "behind-ref": 100, "outliving-errors": 300}
    MIN_NONTRIVIAL = 300

    def strategy(self, tier):
        return cases()

    def check(self, case):
        res = Result()
        res.evals = 0
        if case.get("kind") == "world":
            return self.check_world(case, res)
        d, s = case["draft"], case["schema"]
        if case.get("alias"):
            s = impl.alias_equal(s)
            res.labels.append("aliased")
        cls = impl.CLS[d]
        if walk.has_ref(d, s):
            res.excluded = "has-ref"
            return res
        try:
            cls.check_schema(s)
        except Exception:
            res.excluded = "schema-rejected"
            return res
        xs = list(case["instances"]) + (GI.probes(s, case["probes"]) if case.get("probes") else [])
        for x in xs:
            try:
                errors = list(cls(s).iter_errors(x))
            except Exception:
                res.excluded = "validation-crash(C03)"
                continue
            n0 = len(res.labels)
            check_errors(res, d, s, x, errors)
            res.evals += len(closure(errors))
            if len(res.labels) > n0:
                res.nontrivial = True
            if errors and not res.failures:
                # errors that have been handed to other parts of the library and back: filed in an ErrorTree, ranked by
                # best_match / relevance, printed -- they still say where they are
                try:
                    impl.exceptions.ErrorTree(errors)
                    impl.exceptions.best_match(iter(errors))
                    sorted(errors, key=impl.exceptions.relevance)
                    [str(e) for e in errors]
                except Exception:
                    pass
                check_errors(res, d, s, x, errors, tag="after-tree-and-ranking")
            if any(e.context for e in errors) and not res.failures and res.labels.count("outliving-errors") < 6:
                # errors that outlive the ones they came with: what best_match hands back, what jsonschema.validate
                # raises, and context errors kept while their parents are let go
                del errors
                try:
                    bm = impl.exceptions.best_match(cls(s).iter_errors(x))
                    kids = [c for e in cls(s).iter_errors(x) for c in e.context]
                    try:
                        impl.jsonschema.validate(x, s, cls=cls)
                        raised = None
                    except impl.exceptions.ValidationError as e:
                        raised = e
                except Exception:
                    continue
                for tag, group in (("best_match", [bm]), ("validate", [raised] if raised is not None else []), ("kept-context", kids)):
                    check_errors(res, d, s, x, group, tag=tag)
                res.labels.append("outliving-errors")
        return res

    def check_world(self, case, res):
        d = case["draft"]
        ok, why = GW.wellformed(case)
        if not ok:
            res.excluded = why
            return res
        kf = GW.known_finding_class(case)
        if kf:
            res.excluded = kf
            return res
        oresolver = GW.oracle_resolver(case)

        def hop(node, base):
            b, s2 = oresolver.resolve(base, node["$ref"])
            return s2, b

        for x in GW.instances_of(case):
            try:
                v = GW.build_validator(case)
                errors = list(v.iter_errors(x))
            except Exception:
                res.excluded = "validation-raises"
                continue
            n0 = len(res.labels)
            try:
                check_errors(res, d, case["root"], x, errors, hop=hop, tag="world")
            except (spec.Unresolvable, spec.Unsupported):
                res.excluded = "oracle-cannot-resolve"
                continue
            res.evals += len(closure(errors))
            if len(res.labels) > n0:
                res.nontrivial = True
        return res

    def focus(self, case, bucket):
        if case.get("kind") == "world":
            for x in case["instances"]:
                yield dict(case, instances=[x])
            return
        xs = list(case["instances"]) + (GI.probes(case["schema"], case["probes"]) if case.get("probes") else [])
        for x in xs:
            yield dict(case, instances=[x], probes=0)

    def gate(self, acc, tier):
        miss = []
        need = {3: ("items", "extends", "type"), 4: ("items", "allOf", "anyOf", "oneOf"),
                6: ("items", "allOf", "anyOf", "oneOf"), 7: ("items", "allOf", "anyOf", "oneOf")}
        for d, ks in need.items():
            for k in ks:
                if not acc.labels.get("d%d:%s:index>=1" % (d, k)):
                    miss.append("d%d:%s:index>=1=0" % (d, k))
        return miss


PROP = C06()
