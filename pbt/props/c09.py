"""C09 — numeric keywords are exact for numbers of any magnitude and never raise (reference model: Fraction)."""
import itertools
import math
import sys
from fractions import Fraction

from hypothesis import strategies as st

from .. import impl
from ..gen import values as V
from ..harness import Prop, Result
from ..oracle import spec

FMAX = sys.float_info.max
POOL = [0, 1, -1, 2, 3, 7, 10, 2 ** 53 - 1, 2 ** 53, 2 ** 53 + 1, 2 ** 53 + 2, -(2 ** 53) - 1, 2 ** 63, 2 ** 64 + 1,
        10 ** 20, 10 ** 30 + 1, 10 ** 308, 2 ** 1024, 2 ** 1024 + 1, 2 ** 1024 - 1, 2 ** 1024 - 2 ** 970, 10 ** 400, -10 ** 400, 10 ** 400 + 1, 3 * 10 ** 1000,
        0.0, -0.0, 1.0, -1.0, 2.0, 0.5, 0.25, 1.5, 2.5, 0.1, 0.3, 0.2, 1.1, 7.5, float(2 ** 53), float(2 ** 53) + 2.0,
        9007199254740993.0, 1e20, 1e22, 1e23, 1e300, -1e300, 1e308, FMAX, -FMAX, 5e-324, -5e-324, 1e-320,
        2.0 ** -1022, 2.0 ** -1074, 2.0 ** -30, 2.0 ** 40, 2.0 ** 1023, 3.0 * 2.0 ** -1074, 1e-7, 123456789.125,
        2.0 ** 51 + 0.5, 2.0 ** 52 + 1.0, 2.0 ** 45 + 0.015625, 4.0, -4.0, 6, 3.0, 7.0, 10.0, 2.0 ** 60, 2 ** 60]

big_ints = st.one_of(st.integers(-10 ** 6, 10 ** 6), st.integers(2 ** 52, 2 ** 54), st.integers(2 ** 62, 2 ** 65),
                     st.integers(10 ** 300, 10 ** 320), st.integers(10 ** 395, 10 ** 405),
                     st.integers(1, 9).map(lambda k: k * 10 ** 2000),
                     st.integers(2 ** 1023, 2 ** 1025)).flatmap(lambda n: st.sampled_from([n, -n]))
floats = st.one_of(st.floats(allow_nan=False, allow_infinity=False),
                   st.floats(allow_nan=False, allow_infinity=False, allow_subnormal=True, min_value=-1e-300,
                             max_value=1e-300),
                   st.integers(-2 ** 54, 2 ** 54).map(float),
                   st.sampled_from([x for x in POOL if isinstance(x, float)]))
numbers = st.one_of(st.sampled_from(POOL), big_ints, floats, st.integers(-20, 20))


@st.composite
def neighbours(draw):
    """(a, b) within one ulp / one unit of each other."""
    a = draw(numbers)
    k = draw(st.integers(0, 5))
    if isinstance(a, int):
        b = [a, a + 1, a - 1, a, a, a][k]
        if k >= 3 and abs(a) < 2 ** 1023:
            b = float(a)
            if k == 4:
                b = math.nextafter(b, math.inf)
            if k == 5:
                b = math.nextafter(b, -math.inf)
    else:
        b = [a, math.nextafter(a, math.inf), math.nextafter(a, -math.inf), a, a, a][k]
        if k >= 3 and a == int(a):
            b = int(a) + (k - 4)
    if isinstance(b, float) and not math.isfinite(b):
        b = a
    return (a, b) if draw(st.booleans()) else (b, a)


@st.composite
def mult_pairs(draw):
    """(instance, divisor, class) for multipleOf; classes (a)-(d) construct members of the exact sub-domain."""
    c = draw(st.sampled_from(["pow2", "int-divisor", "dyadic", "int-int", "free", "free", "overflow"]))
    if c == "pow2":
        x = draw(floats)
        d = 2.0 ** draw(st.integers(-1074, 1023))
    elif c == "int-divisor":
        x = draw(floats)
        d = draw(st.one_of(st.integers(1, 1000), st.integers(1, 2 ** 53), big_ints.map(abs).filter(lambda n: n > 0)))
        if draw(st.booleans()) and abs(d) < 2 ** 500 and abs(x) < 1e200:
            k = draw(st.integers(-1000, 1000))
            try:
                x = float(k * d)
            except OverflowError:
                pass
    elif c == "dyadic":
        a = draw(st.integers(-2 ** 20 + 1, 2 ** 20 - 1))
        b = draw(st.integers(1, 2 ** 20 - 1))
        i = draw(st.integers(0, 40))
        j = draw(st.integers(0, 40))
        x = a / 2.0 ** i
        d = b / 2.0 ** j
        if draw(st.booleans()):
            x = d * draw(st.integers(-1000, 1000))
    elif c == "int-int":
        d = abs(draw(big_ints)) or 1
        x = draw(big_ints)
        if draw(st.booleans()):
            x = d * draw(st.integers(-10 ** 6, 10 ** 6))
    elif c == "overflow":
        x = draw(st.one_of(big_ints, st.sampled_from([1e308, FMAX, -FMAX, 1e300])))
        d = draw(st.sampled_from([0.5, 0.25, 2.0 ** -30, 5e-324, 1e-320, 0.1, 2.0 ** -1074, 0.75]))
    else:
        x = draw(numbers)
        d = draw(numbers)
        if isinstance(d, float):
            d = abs(d)
        else:
            d = abs(d)
    if not d > 0:
        d = 1
    return x, d, c


KEYWORDS = {3: ["minimum", "maximum", "divisibleBy"], 4: ["minimum", "maximum", "multipleOf"],
            6: ["minimum", "maximum", "exclusiveMinimum", "exclusiveMaximum", "multipleOf"],
            7: ["minimum", "maximum", "exclusiveMinimum", "exclusiveMaximum", "multipleOf"]}


@st.composite
def cases(draw):
    d = draw(st.sampled_from(impl.DRAFTS))
    kw = draw(st.sampled_from(KEYWORDS[d]))
    flag = None
    if kw in ("multipleOf", "divisibleBy"):
        x, b, cl = draw(mult_pairs())
    else:
        if draw(st.integers(0, 2)) == 0:
            x, b = draw(numbers), draw(numbers)
            cl = "free"
        else:
            x, b = draw(neighbours())
            cl = "neighbours"
        if d <= 4:
            flag = draw(st.sampled_from([None, True, False]))
        elif draw(st.integers(0, 3)) == 0:
            # drafts 6/7: the inclusive and the exclusive bound are independent keywords; one of the others stands
            # next to the keyword under test (its own errors are judged for themselves)
            others = [k for k in ("minimum", "maximum", "exclusiveMinimum", "exclusiveMaximum") if k != kw]
            comp = {"keyword": draw(st.sampled_from(others)), "bound": draw(st.one_of(numbers, st.sampled_from([0, 1, -1, 0.0, 5e-324])))}
            return {"draft": d, "keyword": kw, "instance": x, "bound": b, "flag": None, "class": cl, "companion": comp}
    return {"draft": d, "keyword": kw, "instance": x, "bound": b, "flag": flag, "class": cl}


def expected(d, kw, x, b, flag):
    fx, fb = Fraction(x), Fraction(b)
    if kw == "minimum":
        return fx > fb if (d <= 4 and flag) else fx >= fb
    if kw == "maximum":
        return fx < fb if (d <= 4 and flag) else fx <= fb
    if kw == "exclusiveMinimum":
        return fx > fb
    if kw == "exclusiveMaximum":
        return fx < fb
    return (fx / fb).denominator == 1


def one(res, d, kw, x, b, flag, cl, comp=None):
    cls = impl.CLS[d]
    schema = {kw: b}
    if flag is not None and d <= 4:
        schema["exclusiveMinimum" if kw == "minimum" else "exclusiveMaximum"] = flag
    if comp is not None:
        ck, cb = comp.get("keyword"), comp.get("bound")
        if d < 6 or ck == kw or ck not in ("minimum", "maximum", "exclusiveMinimum", "exclusiveMaximum") or isinstance(cb, bool) \
                or not isinstance(cb, (int, float)) or (isinstance(cb, float) and not math.isfinite(cb)):
            res.excluded = "malformed-companion"
            return
        schema = dict([(ck, cb), (kw, b)] if (cb > 0) else [(kw, b), (ck, cb)])      # both member orders occur
        res.labels.append("companion")
    try:
        cls.check_schema(schema)
    except impl.exceptions.SchemaError:
        res.excluded = "schema-rejected"
        return
    except Exception as e:
        res.fail(("check_schema-raises", impl.tname(e)), "schema=%s" % impl.cj(schema))
        return
    res.evals += 1
    try:
        got = cls(schema).is_valid(x)
        errs = list(cls(schema).iter_errors(x))
        for e in errs:
            str(e.message)
    except Exception as e:
        res.fail(("raises", kw, impl.tname(e)), "%s=%r instance=%r raised %r" % (kw, b, x, e))
        return
    if got != (not errs):
        res.fail(("is_valid-vs-iter_errors", kw), "%r %r" % (x, b))
    if comp is not None:
        # each keyword's own errors against exact arithmetic on its own bound
        for k2, b2 in ((kw, b), (comp["keyword"], comp["bound"])):
            want2 = expected(d, k2, x, b2, None)
            got2 = not any(e.validator == k2 for e in errs)
            if got2 != want2:
                res.fail(("verdict-next-to-companion", k2, "impl-accepts" if got2 else "impl-rejects"),
                         "draft %d schema=%s instance=%r: exact arithmetic says %s is %s" % (
                             d, impl.cj(schema), x, k2, "satisfied" if want2 else "violated"))
        return
    mult = kw in ("multipleOf", "divisibleBy")
    if mult and not spec.mult_in_exact_domain(x, b):
        res.labels.append("mult:outside-exact-domain(no-raise only)")
        return
    want = expected(d, kw, x, b, flag)
    if mult:
        res.labels.append("mult:in-domain:" + cl)
        res.labels.append("mult:multiple" if want else "mult:not-multiple")
        if isinstance(b, float) and math.isinf(float(x) / b) if not (isinstance(x, int) and abs(x) > 2 ** 1023) else False:
            res.labels.append("mult:quotient-overflows")
    else:
        res.labels.append("cmp:" + ("pass" if want else "fail"))
    if got != want:
        res.fail(("verdict", kw, "impl-accepts" if got else "impl-rejects"),
                 "draft %d %s=%r flag=%r instance=%r: exact arithmetic says %s" % (d, kw, b, flag, x,
                                                                                 "valid" if want else "invalid"))


def nontrivial(x, b):
    def odd(v):
        return isinstance(v, float) and v != int(v) or abs(v) > 2 ** 53
    if odd(x) or odd(b):
        return True
    try:
        return abs(Fraction(x) - Fraction(b)) <= 1
    except Exception:
        return False


class C09(Prop):
    ID = "C09"
    QUICK = 6000
    THOROUGH = 150000
    CHUNK = 10000
    RULE = ("case = (draft, numeric keyword, instance, bound/divisor[, boolean exclusive flag]); numbers come from "
            "magnitude classes (small, around 2**53 / 2**63, 10**300..10**2000, floats over the whole exponent range "
            "incl. subnormals, neighbours within one ulp / one unit); multipleOf pairs are constructed inside the "
            "exact sub-domain (power-of-two divisor, integer divisor, dyadic rationals, integer/integer, overflowing "
            "quotient) or free; in drafts 6/7 a quarter of the comparison cases carry a second, independent bound keyword and each keyword's own errors are judged.  Oracle: Fraction arithmetic; outside the exact sub-domain only 'no exception'.  Plus "
            "the complete product of a 60-number pool x pool x keywords x drafts x flags.  Non-trivial: an operand "
            "is non-integer or beyond 2**53, or the operands are within one unit of each other.")
    ASSUMPTIONS = ["fractions.Fraction arithmetic is exact", "integers are bounded by 2100 digits",
                   "the exact sub-domain predicate is pbt.oracle.spec.mult_in_exact_domain (from the statement)"]
    GATES = {"cmp:pass": 2000, "cmp:fail": 2000, "mult:multiple": 500, "mult:not-multiple": 500,
             "mult:in-domain:pow2": 200, "mult:in-domain:dyadic": 200, "mult:in-domain:int-divisor": 200,
             "mult:in-domain:overflow": 100, "mult:outside-exact-domain(no-raise only)": 100, "companion": 1000}
    MIN_NONTRIVIAL = 5000

    def strategy(self, tier):
        return cases()

    def check(self, case):
        res = Result()
        res.evals = 0
        x, b = case["instance"], case["bound"]
        for v in (x, b):
            if isinstance(v, bool) or not isinstance(v, (int, float)) or (isinstance(v, float) and not math.isfinite(v)):
                res.excluded = "not-a-finite-number"
                return res
        one(res, case["draft"], case["keyword"], x, b, case.get("flag"), case.get("class", "?"), case.get("companion"))
        res.nontrivial = nontrivial(x, b)
        return res

    def extra_stages(self, tier, seed, acc):
        from ..harness import run_case
        n = 0
        for d in impl.DRAFTS:
            for kw in KEYWORDS[d]:
                flags = [None, True, False] if d <= 4 and kw in ("minimum", "maximum") else [None]
                for x, b, flag in itertools.product(POOL, POOL, flags):
                    if kw in ("multipleOf", "divisibleBy") and not b > 0:
                        continue
                    run_case(self, {"draft": d, "keyword": kw, "instance": x, "bound": b, "flag": flag,
                                    "class": "pool"}, acc, keep_sample=False)
                    n += 1
                if kw in ("multipleOf", "divisibleBy") and d in (3, 7):
                    # once more in the opposite order (floats before the integers equal to them): an answer must not
                    # depend on which of two numerically equal operands of different type was asked about first
                    for x, b in itertools.product(reversed(POOL), reversed(POOL)):
                        if b > 0:
                            run_case(self, {"draft": d, "keyword": kw, "instance": x, "bound": b, "flag": None,
                                            "class": "pool"}, acc, keep_sample=False)
                            n += 1
        acc.extra["pool_product_cases"] = n
        acc.extra["pool_size"] = len(POOL)


PROP = C09()
