"""C17 — an ErrorTree can always be built and contains every error where its path says (reference model O-TREE)."""
from hypothesis import strategies as st

from .. import impl
from ..gen import instances as GI, schemas as GS, walk
from ..harness import Prop, Result


# property names whose json_path / dotted rendering collides with a genuinely nested location
COLLIDING = [{"a.b": 1, "a": {"b": 2}}, {"a[0]": 1, "a": [2]}, {"a": {"b.c": 1, "b": {"c": 2}}}, {"a": [{"b": 1}], "a[0].b": 2},
             {"a": {"b": 1}, "a.b": {"c": 1}}, [{"0": 1}, {"[0]": 2}], {"$": 1, "": {"": 2}}, {"a": {"0": 1}, "a.0": 2, "a[0]": 3},
             {"0": [1], "0[0]": 2}, {"a": [[1]], "a[0]": [2], "a[0][0]": 3}]


def everything_fails(depth):
    """A schema under which every scalar at depth <= `depth` is an error, so errors sit at many sibling paths."""
    if depth == 0:
        return {"type": "null", "enum": [None]}
    sub = everything_fails(depth - 1)
    return {"type": ["object", "array"], "additionalProperties": sub, "items": sub}


@st.composite
def collision_cases(draw):
    d = draw(st.sampled_from(impl.DRAFTS))
    import copy as _c
    xs = [_c.deepcopy(x) for x in draw(st.lists(st.sampled_from(COLLIDING), min_size=2, max_size=3))]
    order = draw(st.lists(st.integers(0, 99), min_size=8, max_size=8))
    return {"draft": d, "schema": everything_fails(3), "instances": xs, "order": order, "probes": 0}


@st.composite
def cases(draw):
    if draw(st.integers(0, 6)) == 0:
        return draw(collision_cases())
    d = draw(st.sampled_from(impl.DRAFTS))
    s = draw(GS.root_schemas(d, 8))
    xs = draw(GI.instances_for(s, 3))
    order = draw(st.lists(st.integers(0, 99), min_size=8, max_size=8))
    return {"draft": d, "schema": s, "instances": xs, "order": order, "probes": 24, "alias": draw(st.integers(0, 5)) == 0}


def model(errors):
    """O-TREE: path tuple -> {keyword: [errors]}"""
    m = {}
    for e in errors:
        m.setdefault(tuple(e.path), {}).setdefault(e.validator, []).append(e)
    return m


def check_tree(res, tree, errors, x, tag):
    ET = impl.exceptions.ErrorTree
    m = model(errors)
    # 1. every error is where its path says
    for e in errors:
        node = tree
        try:
            for el in e.path:
                node = node[el]
            found = node.errors[e.validator]
        except Exception as ex:
            res.fail(("lookup-along-path", impl.tname(ex)), "%s: path %r keyword %r: %r" % (tag, list(e.path), e.validator, ex))
            continue
        if list(found.path) != list(e.path) or found.validator != e.validator:
            res.fail(("wrong-error-at-node",), "%s: path %r keyword %r holds %r" % (tag, list(e.path), e.validator, found))
    # 2. membership / iteration / counts at every node of the model
    prefixes = set()
    for p in m:
        for i in range(len(p) + 1):
            prefixes.add(p[:i])
    for p in sorted(prefixes, key=lambda t: (len(t), repr(t))):
        node = tree
        try:
            for el in p:
                node = node[el]
        except Exception as ex:
            res.fail(("walk-raises", impl.tname(ex)), "%s: prefix %r: %r" % (tag, p, ex))
            continue
        nxt = set(q[len(p)] for q in m if len(q) > len(p) and q[:len(p)] == p)
        try:
            it = set(iter(node))
        except Exception as ex:
            res.fail(("iter-raises", impl.tname(ex)), repr(ex))
            continue
        if it != nxt:
            res.fail(("iteration",), "%s: at %r iter gives %r, model %r" % (tag, p, sorted(map(repr, it)), sorted(map(repr, nxt))))
        for el in nxt:
            if el not in node:
                res.fail(("membership", "missing"), "%s: %r not in node %r" % (tag, el, p))
        for el in ["no-such-key-zz", 987654] + [k for k in m.get(p, {}) if k not in nxt]:
            # (the keywords that failed at this node are not children of it either)
            if el in node:
                res.fail(("membership", "spurious"), "%s: %r in node %r" % (tag, el, p))
        below = sum(len(kws) for q, kws in m.items() if q[:len(p)] == p)
        if node.total_errors != below or len(node) != below:
            res.fail(("total_errors",), "%s: at %r total_errors=%r len=%r, model %r" % (
                tag, p, node.total_errors, len(node), below))
        here = set(m.get(p, {}))
        if set(node.errors) != here:
            res.fail(("errors-keys",), "%s: at %r errors has %r, model %r" % (tag, p, sorted(map(str, node.errors)), sorted(map(str, here))))
    return prefixes, m


def index_clean_elements(res, tree, x, prefixes, m, errors, tag):
    """Indexing an element that exists in the instance but has no errors gives an empty tree.
    Done last: it inserts children (known quirk, not claimed either way)."""
    def value_at(p):
        v = x
        for el in p:
            v = v[el]
        return v
    for p in sorted(prefixes, key=lambda t: (len(t), repr(t))):
        try:
            v = value_at(p)
        except (KeyError, IndexError, TypeError):
            continue            # Draft 3 `required` paths name a missing property
        children = list(v.keys()) if isinstance(v, dict) else list(range(len(v))) if isinstance(v, list) else []
        with_err = set(q[len(p)] for q in m if len(q) > len(p) and q[:len(p)] == p)
        node = tree
        try:
            for el in p:
                node = node[el]
        except Exception:
            continue            # already reported by check_tree (walk-raises / lookup-along-path)
        for c in children:
            if c in with_err:
                continue
            res.labels.append("index-clean")
            try:
                sub = node[c]
                n = sub.total_errors
            except Exception as ex:
                # the listed finding: the node keeps the instance of the error filed LAST, and that of a
                # propertyNames error is a property name.  Any other arrangement that raises is something else.
                at_node = [e for e in errors if tuple(e.path) == p]
                pn = bool(at_node) and (at_node[-1].validator == "propertyNames"
                                        or "propertyNames" in list(at_node[-1].schema_path))
                res.fail(("index-clean-raises", impl.tname(ex), "node-holds-propertyNames-error" if pn else "plain"),
                         "%s: tree%r[%r] raised %r" % (tag, list(p), c, ex))
                continue
            if n != 0 or len(sub) != 0 or list(sub) or dict(sub.errors):
                res.fail(("index-clean-nonempty",), "%s: tree%r[%r]: total_errors=%r len=%r children=%r errors=%r" % (
                    tag, list(p), c, n, len(sub), list(sub)[:4], dict(sub.errors)))
                continue
            # one level further into error-free territory (where the instance has something there)
            try:
                below = value_at(p + (c,))
            except (KeyError, IndexError, TypeError):
                continue
            inner = list(below.keys())[:2] if isinstance(below, dict) else list(range(min(2, len(below)))) if isinstance(below, list) else []
            for c2 in inner:
                try:
                    sub2 = sub[c2]
                    if sub2.total_errors != 0 or list(sub2):
                        res.fail(("index-clean-nonempty", "second-level"), "%s: tree%r[%r][%r] is not empty" % (tag, list(p), c, c2))
                except Exception as ex:
                    res.fail(("index-clean-raises", impl.tname(ex), "second-level"), "%s: tree%r[%r][%r] raised %r" % (tag, list(p), c, c2, ex))


class C17(Prop):
    ID = "C17"
    QUICK = 1200
    THOROUGH = 16000
    RULE = ("case = (draft, schema, 3 drawn + <= 24 schema-derived instances, an arrival order); for every instance "
            "that yields errors, ErrorTree is built from the errors in generation order, reversed, and in the drawn "
            "permutation, and compared with a dict model path -> keyword -> errors: every error is found along its "
            "path, iteration / membership / total_errors / len at every node equal the model, error-free existing "
            "elements index to empty trees.  One evaluation per (instance, order).  Non-trivial: >= 3 errors over >= 2 "
            "distinct paths, or a Draft 3 required error, or a propertyNames error, or two errors with the same path "
            "and keyword.")
    ASSUMPTIONS = ["membership / iteration are checked on a freshly built tree before any clean-element lookup"]
    GATES = {"multi-path": 300, "d3-required": 20, "propertyNames": 20, "same-path-and-keyword": 30, "index-clean": 500,
             "paths-that-render-alike": 100}
    MIN_NONTRIVIAL = 300

    def strategy(self, tier):
        return cases()

    def check(self, case):
        res = Result()
        res.evals = 0
        d, s = case["draft"], case["schema"]
        if case.get("alias"):
            s = impl.alias_equal(s)
            res.labels.append("aliased")
        cls = impl.CLS[d]
        ET = impl.exceptions.ErrorTree
        if walk.has_ref(d, s):
            res.excluded = "has-ref"
            return res
        try:
            cls.check_schema(s)
        except Exception:
            res.excluded = "schema-rejected"
            return res
        xs = list(case["instances"]) + (GI.probes(s, case["probes"]) if case.get("probes") else [])
        order = case.get("order") or [0]
        for x in xs:
            try:
                errors = list(cls(s).iter_errors(x))
            except Exception:
                res.excluded = "validation-crash(C03)"
                continue
            if case.get("drop_propertyNames_errors"):
                errors = [e for e in errors if "propertyNames" not in list(e.schema_path)]
            if not errors:
                continue
            idx = list(range(len(errors)))
            perms = {"generation": idx, "reversed": idx[::-1],
                     "drawn": sorted(idx, key=lambda i: (order[i % len(order)], i))}
            paths = set(tuple(e.path) for e in errors)
            pk = [(tuple(e.path), e.validator) for e in errors]
            nt = False
            if len(errors) >= 3 and len(paths) >= 2:
                res.labels.append("multi-path")
                nt = True
            if d == 3 and any(e.validator == "required" for e in errors):
                res.labels.append("d3-required")
                nt = True
            if any("propertyNames" in list(e.schema_path) for e in errors):
                res.labels.append("propertyNames")
                nt = True
            if len(set(pk)) < len(pk):
                res.labels.append("same-path-and-keyword")
                nt = True
            rendered = ["/".join(map(str, p)).replace("/", ".") for p in paths]
            if len(set("".join(c for c in r if c not in ".[]") for r in rendered)) < len(rendered):
                res.labels.append("paths-that-render-alike")
                nt = True
            res.nontrivial = res.nontrivial or nt
            for tag, perm in perms.items():
                res.evals += 1
                errs = [errors[i] for i in perm]
                try:
                    tree = ET(errs)
                except Exception as ex:
                    res.fail(("constructor-raises", impl.tname(ex)),
                             "order=%s instance=%s errors=%r: %r" % (tag, impl.cj(x)[:300],
                                                                     [(list(e.path), e.validator) for e in errs][:8], ex))
                    continue
                prefixes, m = check_tree(res, tree, errs, x, tag)
                index_clean_elements(res, tree, x, prefixes, m, errs, tag)
        return res

    def focus(self, case, bucket):
        xs = list(case["instances"]) + (GI.probes(case["schema"], case["probes"]) if case.get("probes") else [])
        for x in xs:
            yield dict(case, instances=[x], probes=0)


PROP = C17()
