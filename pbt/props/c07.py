"""C07 — validation is pure and history-independent; a validator can be reused forever
(model-based stateful testing: generated operation histories on one validator vs a fresh validator per step)."""
import copy
import gc

from hypothesis import strategies as st

from .. import impl
from ..gen import instances as GI, schemas as GS, walk, worlds as GW
from ..harness import Prop, Result
from ..oracle import uri as ouri

OPS = ["is_valid", "exhaust", "validate", "take_close", "take_drop", "resolve", "resolving", "resolving_raise",
       "in_scope_raise", "up"]


class BodyFailed(Exception):
    pass


@st.composite
def plain_cases(draw):
    d = draw(st.sampled_from(impl.DRAFTS))
    if draw(st.integers(0, 3)) == 0:
        # type-centred schemas: every keyword gates on the instance's type, so a validator that has seen one value
        # of a Python class must still type the next value of that class on its own merits
        names = GS.T3 if d == 3 else GS.T4
        t = draw(st.one_of(st.sampled_from(names), st.lists(st.sampled_from(names), min_size=1, max_size=2, unique=True)))
        s = draw(st.sampled_from([{"type": t}, {"items": {"type": t}}, {"properties": {"a": {"type": t}}},
                                  {"type": t, "minimum": 1}, {"additionalProperties": {"type": t}, "items": {"type": t}}]))
        return {"kind": "plain", "draft": d, "schema": s, "instances": [], "probes": 8}
    s = draw(GS.root_schemas(d, 8))
    xs = draw(GI.instances_for(s, 3))
    return {"kind": "plain", "draft": d, "schema": s, "instances": xs, "probes": 20}


@st.composite
def cases(draw):
    if draw(st.integers(0, 9)) < 3:
        return draw(plain_cases())
    w = draw(GW.worlds(ninst=4, split_paths=draw(st.booleans()), foreign_ids=draw(st.booleans())))
    # force some documents behind the handler so that the down -> up transition exists
    handler_docs = [u for u, v in w["via"].items() if v == "handler"]
    w["down"] = draw(st.lists(st.sampled_from(handler_docs), unique=True)) if handler_docs else []
    refs = sorted(set(sub["$ref"] for _, sub in GW.all_refs(w["draft"], w["root"]) if isinstance(sub["$ref"], str)))
    refs += ["#/definitions/nope", "http://ex.test/missing.json", "nowhere.json#/x", "#"]
    steps = []
    for _ in range(draw(st.integers(2, 14))):
        op = draw(st.sampled_from(OPS))
        if op in ("resolve", "resolving", "resolving_raise", "in_scope_raise"):
            steps.append([op, draw(st.sampled_from(refs))])
        elif op == "up":
            steps.append([op, draw(st.integers(0, 3))])
        elif op in ("take_close", "take_drop"):
            steps.append([op, draw(st.integers(0, 3)), draw(st.integers(0, 2))])
        else:
            steps.append([op, draw(st.integers(0, 6))])
    w["steps"] = steps
    w["kind"] = "history"
    return w


def ekeys(errors):
    return [impl.errkey(e, instance=True) for e in errors]


HELD = []       # exceptions caught during the current history stay alive until it ends (callers keep them)


def perform(v, step, instances):
    """Run one operation on validator v; return a comparable outcome."""
    op = step[0]
    try:
        if op == "is_valid":
            return ("ok", v.is_valid(instances[step[1] % len(instances)]))
        if op == "exhaust":
            return ("ok", ekeys(v.iter_errors(instances[step[1] % len(instances)])))
        if op == "validate":
            try:
                v.validate(instances[step[1] % len(instances)])
                return ("ok", None)
            except impl.exceptions.ValidationError as e:
                HELD.append(e)
                return ("ValidationError", impl.errkey(e, instance=True))
        if op in ("take_close", "take_drop"):
            it = v.iter_errors(instances[step[1] % len(instances)])
            got = []
            for _ in range(step[2]):
                e = next(it, None)
                if e is None:
                    break
                got.append(impl.errkey(e, instance=True))
            if op == "take_close":
                it.close()
            del it
            gc.collect()
            return ("ok", got)
        if op == "resolve":
            url, resolved = v.resolver.resolve(step[1])
            return ("ok", url, impl.cj(resolved))
        if op == "resolving":
            with v.resolver.resolving(step[1]) as resolved:
                inner = v.resolver.resolution_scope
                return ("ok", inner, impl.cj(resolved))
        if op == "resolving_raise":
            try:
                with v.resolver.resolving(step[1]) as resolved:
                    raise BodyFailed()
            except BodyFailed:
                return ("ok", "body-raised")
        if op == "in_scope_raise":
            try:
                with v.resolver.in_scope(step[1]):
                    inner = v.resolver.resolution_scope
                    raise BodyFailed()
            except BodyFailed:
                return ("ok", "body-raised", inner)
    except impl.exceptions.RefResolutionError as e:
        HELD.append(e)
        gc.collect()
        return ("RefResolutionError",)
    except impl.exceptions.UnknownType:
        return ("UnknownType",)
    raise ValueError("unknown op %r" % (op,))


class C07(Prop):
    ID = "C07"
    QUICK = 250
    THOROUGH = 6000
    RULE = ("70%: case = reference world (local, remote-in-store, remote-behind-handler, relative, recursive, unresolvable "
            "references, nested ids; some handler documents initially down) + a history of 2-14 operations on ONE "
            "validator: is_valid, exhaust iter_errors, validate, take k errors then close(), take k errors then drop "
            "the iterator, resolver.resolve(ref), with resolver.resolving(ref), bring a down document up.  After every "
            "operation: the outcome (error keys incl. instance, or exception type) equals that of a FRESH validator "
            "over deep copies of the world performing only that operation; resolution_scope and the scope-stack depth "
            "equal their initial values; deep snapshots of instances, schema and store documents are unchanged.  One "
            "evaluation per step.  Non-trivial: >= 3 steps incl. an early-closed / dropped iterator or an exception, "
            "in a world with a relative reference or a nested id.  30%: reference-free C01-style cases where one validator "
            "object validates every drawn / derived instance in turn (exhaust, is_valid, exhaust) and is compared "
            "with a fresh validator, with deep snapshots (repr) of instance and schema.")
    ASSUMPTIONS = ["CPython finalises dropped generators promptly (gc.collect() is also called)",
                   "re-entering a validator while one of its own iterators is suspended is not claimed (DESIGN.md C07)",
                   "documents go down -> up only, never back"]
    GATES = {"op:take_drop": 200, "op:take_close": 200, "outcome:RefResolutionError": 100, "op:up": 50,
             "world:nested-id": 30, "world:ref:relative": 100, "world:split-paths": 100}
    MIN_NONTRIVIAL = 200

    def strategy(self, tier):
        return cases()

    def check_plain(self, case):
        """Reference-free schemas: one validator object used on every instance in turn (exhaust, is_valid,
        exhaust again); results equal a fresh validator's, instance and schema deep-unchanged."""
        res = Result()
        res.evals = 0
        d, s = case["draft"], case["schema"]
        cls = impl.CLS[d]
        if walk.has_ref(d, s):
            res.excluded = "has-ref"
            return res
        try:
            cls.check_schema(s)
        except Exception:
            res.excluded = "schema-rejected"
            return res
        s_used = copy.deepcopy(s)
        v = cls(s_used)
        snap_schema = impl.cj(s_used)
        xs = list(case["instances"]) + (GI.probes(s, case["probes"]) if case.get("probes") else [])
        # values of one Python class that a draft may type differently, and Python-equal values of different JSON
        # types, one after the other on the same validator object
        xs += [1.0, 1.5, 2.0, 2.5, -0.0, [1.0], [1.5], 1, True, 0, False, "1", {"a": 1.0}, {"a": 1.5}]
        res.labels.append("plain")
        for x in xs:
            res.evals += 1
            mine = copy.deepcopy(x)
            snap = repr(mine)
            try:
                r1 = ekeys(v.iter_errors(mine))
                ok1 = v.is_valid(mine)
                r2 = ekeys(v.iter_errors(mine))
                fresh = ekeys(cls(copy.deepcopy(s)).iter_errors(copy.deepcopy(x)))
            except Exception:
                res.excluded = "crash(C03)"
                continue
            if repr(mine) != snap:
                res.fail(("instance-modified", "plain"), "instance %s became %s" % (snap[:200], repr(mine)[:200]))
            if impl.cj(s_used) != snap_schema:
                res.fail(("schema-modified", "plain"), "")
                return res
            if not (r1 == r2 == fresh) or ok1 != (not r1):
                res.fail(("history-dependent-result", "plain"), "instance=%s" % impl.cj(x)[:200])
        # an object instance may be any dict: one that invents members when read carelessly (defaultdict) must
        # come out unchanged and be judged like the plain dict
        import collections
        for x in xs:
            if isinstance(x, dict) and len(x) <= 4:
                dd = collections.defaultdict(list, copy.deepcopy(x))
                before = dict(dd)
                try:
                    r = ekeys(cls(copy.deepcopy(s)).iter_errors(dd))
                    plain = ekeys(cls(copy.deepcopy(s)).iter_errors(copy.deepcopy(x)))
                except Exception:
                    continue
                res.labels.append("defaultdict-instance")
                if dict(dd) != before:
                    res.fail(("instance-modified", "defaultdict"), "instance %r became %r" % (before, dict(dd)))
                elif [(k[0], k[2], k[3]) for k in r] != [(k[0], k[2], k[3]) for k in plain]:      # messages embed repr()
                    res.fail(("dict-subclass-judged-differently",), "instance=%s" % impl.cj(x)[:200])
        res.nontrivial = True
        return res

    def focus(self, case, bucket):
        if case.get("kind") == "plain":
            xs = list(case["instances"]) + (GI.probes(case["schema"], case["probes"]) if case.get("probes") else [])
            for x in xs:
                yield dict(case, instances=[x], probes=0)

    def check(self, case):
        if case.get("kind") == "plain":
            return self.check_plain(case)
        res = Result()
        res.evals = 0
        ok, why = GW.wellformed(case, allow_foreign_ids=True)
        if not ok:
            res.excluded = why
            return res
        kf = GW.known_finding_class(case)
        if kf:
            res.excluded = kf
            return res
        steps = case.get("steps")
        if not isinstance(steps, list) or not case["instances"]:
            res.excluded = "malformed"
            return res
        for lab in case.get("classes", []):
            res.labels.append("world:" + lab)
        handler_docs = sorted(u for u, v in case["via"].items() if v == "handler")
        down = set(d for d in case.get("down", []) if d in handler_docs)
        handler = GW.Handler(case, down=down)
        try:
            v = GW.build_validator(case, handler=handler)
        except Exception as e:
            res.excluded = "cannot-build:" + impl.tname(e)
            return res
        instances = copy.deepcopy(GW.instances_of(case))
        snap_inst = impl.cj(instances)
        snap_schema = impl.cj(v.schema)
        snap_store = dict((u, impl.cj(v.resolver.store[u])) for u in case["docs"] if case["via"][u] in ("store", "store#"))
        scope0, depth0 = v.resolver.resolution_scope, impl.stack_depth(v.resolver)
        interesting = False
        del HELD[:]
        for n, step in enumerate(steps):
            if not isinstance(step, list) or not step or step[0] not in OPS:
                res.excluded = "malformed-step"
                return res
            res.evals += 1
            res.labels.append("op:" + step[0])
            if step[0] == "up":
                if handler_docs:
                    handler.down.discard(handler_docs[step[1] % len(handler_docs)])
                continue
            try:
                got = perform(v, step, instances)
            except RecursionError:
                res.excluded = "non-terminating"
                return res
            except (IndexError, TypeError, ValueError) as e:
                if step[0] in ("resolve", "resolving", "resolving_raise", "in_scope_raise") and not isinstance(step[1], str):
                    res.excluded = "malformed-step"
                    return res
                res.fail(("history", "raises", impl.tname(e)), "step %d %r raised %r after %r" % (n, step, e, steps[:n]))
                return res
            except Exception as e:
                res.fail(("history", "raises", impl.tname(e)), "step %d %r raised %r after %r" % (n, step, e, steps[:n]))
                return res
            res.labels.append("outcome:" + got[0])
            if step[0] in ("take_close", "take_drop") or got[0] != "ok":
                interesting = True
            # fresh validator, same world, handler in its current state, only this operation
            fresh = GW.build_validator(case, handler=GW.Handler(case, down=set(handler.down)))
            want = perform(fresh, step, copy.deepcopy(GW.instances_of(case)))
            if got != want:
                res.fail(("history-dependent-result", step[0]),
                         "step %d %r after %r:\n reused validator: %r\n fresh validator:  %r" % (
                             n, step, steps[:n], str(got)[:300], str(want)[:300]))
            try:
                scope_now = v.resolver.resolution_scope
            except IndexError:          # nothing left on the stack at all
                scope_now = "<no scope left>"
            if scope_now != scope0 or impl.stack_depth(v.resolver) != depth0:
                res.fail(("scope-not-restored", step[0]),
                         "after step %d %r (history %r): resolution_scope=%r stack=%r, initially %r" % (
                             n, step, steps[:n], scope_now, getattr(v.resolver, "_scopes_stack", "?"), scope0))
                return res
            if impl.cj(instances) != snap_inst:
                res.fail(("instance-modified", step[0]), "step %d %r" % (n, step))
                return res
            if impl.cj(v.schema) != snap_schema:
                res.fail(("schema-modified", step[0]), "step %d %r" % (n, step))
                return res
            for u, sn in snap_store.items():
                if impl.cj(v.resolver.store[u]) != sn:
                    res.fail(("store-document-modified", step[0]), "step %d %r doc %s" % (n, step, u))
                    return res
        cls_ = case.get("classes", [])
        res.nontrivial = interesting and len(steps) >= 3 and any(
            c in cls_ for c in ("ref:relative", "nested-id", "remote-internal-ref:relative"))
        return res


PROP = C07()
