"""atheris target for C03: bytes -> (draft, schema from a byte-driven grammar, instances) -> totality oracle."""
NAMES = ["type", "enum", "const", "minimum", "maximum", "exclusiveMinimum", "exclusiveMaximum", "multipleOf", "divisibleBy",
         "minLength", "maxLength", "pattern", "minItems", "maxItems", "uniqueItems", "items", "additionalItems", "contains",
         "properties", "patternProperties", "additionalProperties", "required", "dependencies", "minProperties",
         "maxProperties", "propertyNames", "allOf", "anyOf", "oneOf", "not", "if", "then", "else", "extends", "disallow",
         "format", "default", "title", "definitions", "examples"]
ATOMS = [None, True, False, 0, 1, -1, 2, 0.0, 1.5, 0.5, 10 ** 400, 1e308, 5e-324, 2 ** 53 + 1, "", "a", "ab", "^a", "string",
         "object", "array", "integer", "number", "null", "boolean", "any", "ipv4", "regex", "date", "\U0001F600"]


def value(fdp, depth, schema_like):
    k = fdp.ConsumeIntInRange(0, 9 if depth < 4 else 4)
    if k <= 4:
        return ATOMS[fdp.ConsumeIntInRange(0, len(ATOMS) - 1)]
    if k in (5, 6):
        return [value(fdp, depth + 1, schema_like) for _ in range(fdp.ConsumeIntInRange(0, 3))]
    out = {}
    for _ in range(fdp.ConsumeIntInRange(0, 3)):
        if schema_like and fdp.ConsumeIntInRange(0, 3) > 0:
            key = NAMES[fdp.ConsumeIntInRange(0, len(NAMES) - 1)]
        else:
            key = ["a", "b", "", "ab", "0"][fdp.ConsumeIntInRange(0, 4)]
        out[key] = value(fdp, depth + 1, schema_like)
    return out


def decode(fdp):
    d = [3, 4, 6, 7][fdp.ConsumeIntInRange(0, 3)]
    schema = {}
    for _ in range(fdp.ConsumeIntInRange(1, 4)):
        schema[NAMES[fdp.ConsumeIntInRange(0, len(NAMES) - 1)]] = value(fdp, 1, True)
    xs = [value(fdp, 0, False) for _ in range(2)]
    return {"draft": d, "schema": schema, "instances": xs, "flavour": "atheris", "probes": 4}


if __name__ == "__main__":
    from pbt.fuzz import common
    common.target_main("C03", decode)
