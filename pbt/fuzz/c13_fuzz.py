"""atheris target for C13: (format, unicode string) -> conforms()/check() vs the grammar recognisers."""
import sys

FORMATS = ["ipv4", "ipv6", "date", "email", "regex", "time", "idn-hostname", "ip-address", "idn-email"]
DICT = ["::", "%", "{99999999999}", "(?a)", "(?u)", "-W", "1.2.3.4", "ffff", "２", "٤", "2020-01-01", "T", "Z", "/64",
        "(?P<n>", "\\1", "[a-", "(?i)", "{2,1}", "::ffff:", "0x", "00", "255", "256", "-02-29", "xn--"]


def decode(fdp):
    fmt = FORMATS[fdp.ConsumeIntInRange(0, len(FORMATS) - 1)]
    s = fdp.ConsumeUnicodeNoSurrogates(fdp.ConsumeIntInRange(0, 80))
    return {"format": fmt, "string": s, "source": "atheris", "edits": 0}


def functions_to_instrument():
    import inspect
    import ipaddress
    import re._compiler
    import re._parser
    out = []
    for mod in (ipaddress, re._parser, re._compiler):
        for name, obj in vars(mod).items():
            if inspect.isfunction(obj) and obj.__module__ == mod.__name__:
                out.append(obj)
            elif inspect.isclass(obj) and obj.__module__ == mod.__name__:
                for n2, o2 in vars(obj).items():
                    if inspect.isfunction(o2):
                        out.append(o2)
    return out


if __name__ == "__main__":
    from pbt.fuzz import common
    common.target_main("C13", decode, functions_to_instrument())
