"""Shared plumbing for the atheris (libFuzzer) stages of the thorough tier.

A fuzz target is a module with `decode(fdp) -> case` (bytes -> a case of the property's usual JSON shape) and
uses the property's own `check(case)` as the oracle *inside* the target; on a failure that no open known finding
explains it writes the case as a replay file and raises, which stops that libFuzzer job.  `run(...)` starts N
independent jobs (own corpus dir, own -seed) as subprocesses and gathers statistics and replay files."""
import json
import os
import re
import subprocess
import sys
import tempfile
import shutil

VERIF = os.path.dirname(os.path.dirname(os.path.dirname(os.path.abspath(__file__))))
DEPS = os.path.join(VERIF, ".deps")


def ensure_atheris():
    if os.path.isdir(os.path.join(DEPS, "atheris")):
        return True
    r = subprocess.run([sys.executable, "-m", "pip", "install", "--no-index", "--find-links", "/opt/veriftools/wheels",
                        "--target", DEPS, "atheris"], stdout=subprocess.PIPE, stderr=subprocess.STDOUT)
    return r.returncode == 0 and os.path.isdir(os.path.join(DEPS, "atheris"))


def run(module, seed, runs, jobs, seeds_corpus=(), dictionary=(), max_len=256, timeout=1800):
    """Returns dict(executions, jobs, cov, ft, corpus, replays=[case,...], skipped=reason|None)."""
    if not ensure_atheris():
        return {"skipped": "atheris could not be installed from the wheelhouse", "executions": 0, "replays": []}
    work = tempfile.mkdtemp(prefix="fuzz_")
    procs = []
    try:
        for j in range(jobs):
            cdir = os.path.join(work, "corpus%d" % j)
            os.makedirs(cdir)
            if j % 2 == 1:           # odd jobs start from the seed corpus, even jobs from an empty one
                for i, data in enumerate(seeds_corpus):
                    with open(os.path.join(cdir, "seed%d" % i), "wb") as f:
                        f.write(data)
            out = os.path.join(work, "out%d" % j)
            os.makedirs(out)
            args = [sys.executable, "-m", module, "-runs=%d" % runs, "-seed=%d" % (seed * 1000 + j + 1),
                    "-max_len=%d" % max_len, "-artifact_prefix=%s/" % out, "-print_final_stats=1", "-timeout=60"]
            if dictionary:
                dpath = os.path.join(work, "dict%d" % j)
                with open(dpath, "w") as f:
                    for tok in dictionary:
                        f.write('"%s"\n' % "".join("\\x%02x" % b for b in tok.encode("utf-8")))
                args.append("-dict=" + dpath)
            args.append(cdir)
            env = dict(os.environ, PYTHONPATH=VERIF + os.pathsep + DEPS, VERIF_FUZZ_OUT=out, PYTHONHASHSEED="0")
            procs.append((j, out, cdir, subprocess.Popen(args, cwd=VERIF, env=env, stdout=subprocess.PIPE,
                                                         stderr=subprocess.STDOUT, text=True)))
        stats = {"executions": 0, "jobs": jobs, "cov": 0, "ft": 0, "corpus": 0, "replays": [], "skipped": None,
                 "job_errors": []}
        for j, out, cdir, p in procs:
            try:
                text, _ = p.communicate(timeout=timeout)
            except subprocess.TimeoutExpired:
                p.kill()
                text, _ = p.communicate()
                stats["job_errors"].append("job %d timed out" % j)
            m = re.findall(r"stat::number_of_executed_units:\s*(\d+)", text)
            if m:
                stats["executions"] += int(m[-1])
            m = re.findall(r"#\d+\s+\w+\s+cov: (\d+) ft: (\d+) corp: (\d+)", text)
            if m:
                stats["cov"] = max(stats["cov"], int(m[-1][0]))
                stats["ft"] = max(stats["ft"], int(m[-1][1]))
                stats["corpus"] += int(m[-1][2])
            for name in sorted(os.listdir(out)):
                if name.endswith(".replay.json"):
                    with open(os.path.join(out, name)) as f:
                        stats["replays"].append(json.load(f))
            if p.returncode not in (0, None) and not any(n.endswith(".replay.json") for n in os.listdir(out)):
                stats["job_errors"].append("job %d exited %s: %s" % (j, p.returncode, text[-600:]))
        return stats
    finally:
        shutil.rmtree(work, ignore_errors=True)


def target_main(prop_id, decode, instrument=()):
    """Entry point of a target module (python -m pbt.fuzz.cNN_fuzz <libFuzzer args>)."""
    import atheris
    sys.path.insert(0, VERIF)
    with atheris.instrument_imports(include=["jsonschema"]):
        from pbt import harness
        harness.bind_repo()
        import jsonschema  # noqa
    from pbt import harness
    prop = harness.load_prop(prop_id)
    known = harness.load_known()
    for fn in instrument:
        try:
            atheris.instrument_func(fn)
        except Exception:
            pass
    out = os.environ.get("VERIF_FUZZ_OUT", ".")
    state = {"n": 0}

    def one(data):
        fdp = atheris.FuzzedDataProvider(data)
        try:
            case = decode(fdp)
        except Exception:
            return
        if case is None:
            return
        state["n"] += 1
        res = prop.check(case)
        bad = [(b, d) for b, d in res.failures if not harness.attribute(prop, known, case, b, d)]
        if bad:
            with open(os.path.join(out, "crash%d.replay.json" % state["n"]), "w") as f:
                json.dump({"property": prop_id, "case": case, "bucket": list(bad[0][0]), "observed": bad[0][1],
                           "source": "atheris"}, f)
            raise AssertionError("property %s violated: %r" % (prop_id, bad[0]))

    atheris.Setup(sys.argv, one)
    atheris.Fuzz()
