"""atheris target for C14: bytes -> (document with hostile keys, negative pointers) -> the C14 oracle."""
KEYS = ["", "/", "~", "~0", "~1", "~01", "%", "%25", "#", "?", " ", "a", "b", "0", "1", "01", "-1", "-", "a/b", "m~n",
        "é", "+1", "1.0", "//", "~~", "%2F"]


def value(fdp, depth):
    k = fdp.ConsumeIntInRange(0, 7 if depth < 4 else 3)
    if k == 0:
        return None
    if k == 1:
        return fdp.ConsumeBool()
    if k == 2:
        return fdp.ConsumeIntInRange(-3, 9)
    if k == 3:
        return fdp.ConsumeUnicodeNoSurrogates(3)
    if k in (4, 5):
        return [value(fdp, depth + 1) for _ in range(fdp.ConsumeIntInRange(0, 3))]
    out = {}
    for _ in range(fdp.ConsumeIntInRange(0, 3)):
        if fdp.ConsumeBool():
            key = KEYS[fdp.ConsumeIntInRange(0, len(KEYS) - 1)]
        else:
            key = fdp.ConsumeUnicodeNoSurrogates(4)
        out[key] = value(fdp, depth + 1)
    return out


def decode(fdp):
    doc = {"r": value(fdp, 0), "": value(fdp, 1)}
    neg = []
    for _ in range(fdp.ConsumeIntInRange(0, 3)):
        toks = []
        for _ in range(fdp.ConsumeIntInRange(1, 4)):
            toks.append(KEYS[fdp.ConsumeIntInRange(0, len(KEYS) - 1)] if fdp.ConsumeBool()
                        else fdp.ConsumeUnicodeNoSurrogates(3))
        neg.append(toks)
    also = [c for c in "~/?-._!ab01" if fdp.ConsumeBool()]
    return {"doc": doc, "also": also, "negative": neg, "draft": [4, 6, 7][fdp.ConsumeIntInRange(0, 2)]}


if __name__ == "__main__":
    from pbt.fuzz import common
    common.target_main("C14", decode)
