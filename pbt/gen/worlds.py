"""G-WORLD: reference worlds — a root schema plus external documents, with references generated from
(target document, token path) pairs and rendered in every spelling valid at their position."""
import copy

from hypothesis import strategies as st

from .. import impl
from ..oracle import pointer as optr, spec, uri as ouri
from . import values as V, walk

DEF_NAMES = ["a", "b", "", "a/b", "m~n", "~1", "~01", "%", "%25", "x y", "é", "0", "01", "#", "?", '"', "\\",
             "\U0001F600", "items", "$ref", "a~0b", "c%d"]
EXT_URIS = ["http://ex.test/b.json", "http://ex.test/sub/c.json", "http://ex.test/dir/d.json",
            "http://other.test/e.json", "http://ex.test/B.json",          # B.json / b.json: paths are case-sensitive
            "http://ex.test/sub%2Fc.json"]      # not sub/c.json: a reserved character and its escape differ (RFC 3986 2.2)
ROOT_BASES = ["", "", "http://ex.test/root.json", "http://ex.test/dir/root.json", "http://ex.test/root.json#",
              "http://ex.test/sub/deep/r.json", "http://ex.test/root.json", "http://ex.test/dir/root.json",
              # a document that is published under the URI of a bundled metaschema (somebody's adapted copy): inside
              # it, "#/definitions/..." means ITS definitions
              "http://json-schema.org/draft-07/schema#", "http://json-schema.org/draft-04/schema"]
EXOTIC_BASES = ["urn:example:root", "tag:ex.test,2020:root", "x-sch://ex/root.json"]
TWINS = ["http://ex.test/sub/c.json", "http://ex.test/sub%2Fc.json"]
OPTIONAL = list("~!$&'()*+,;=:@?-._") + list("abm01") + ["/", "/", "/"]

LEAVES = [{"type": "string"}, {"type": "integer"}, {"type": "object"}, {"type": "array"}, {"type": "boolean"},
          {"type": "null"}, {"enum": [1, "a"]}, {"enum": [None]}, {"minimum": 2}, {"maximum": 0}, {"maxLength": 1},
          {"minLength": 2}, {"minItems": 1}, {"maxItems": 0}, {"pattern": "^a"}, {"type": ["string", "null"]}, {"uniqueItems": True}, {}, {}]
leaf = st.sampled_from(LEAVES).map(copy.deepcopy)
INST_SCALARS = [None, True, False, 0, 1, 2, 3, -1, 1.5, "", "a", "ab", "b", "abc", 3, 2, 1, "b", "a"]
inst_scalar = st.sampled_from(INST_SCALARS)
inst_keys = st.sampled_from(["a", "b", "c", "k", ""])


def instances(max_leaves=8):
    return st.recursive(inst_scalar, lambda c: st.one_of(st.lists(c, max_size=3),
                                                         st.dictionaries(inst_keys, c, max_size=3)),
                        max_leaves=max_leaves)


def doc_uri(base):
    return ouri.defrag(base)[0]


def relative_forms(base, target):
    """Relative reference strings r with join(base, r) == target (both absolute hierarchical URIs)."""
    out = []
    bs, ba, bp, _, _ = ouri.parse(base)
    ts, ta, tp, _, _ = ouri.parse(target)
    if bs is None or ts is None or bs != ts or ba != ta or ba is None:
        return out
    cands = [tp, "//" + ta + tp]
    bdir = bp[:bp.rfind("/") + 1]
    if tp.startswith(bdir):
        rest = tp[len(bdir):]
        cands.append(rest)
        cands.append("./" + rest)
    bparts = bdir.strip("/").split("/") if bdir.strip("/") else []
    tparts = tp.lstrip("/").split("/")
    common = 0
    while common < len(bparts) and common < len(tparts) - 1 and bparts[common] == tparts[common]:
        common += 1
    ups = len(bparts) - common
    if ups:
        cands.append("../" * ups + "/".join(tparts[common:]))
    for c in cands:
        if c and ouri.join(base, c) == target:
            out.append(c)
    return out


@st.composite
def render_ref(draw, base, own_doc, target_uri, tokens, allow_fragment_only):
    """A reference string that, resolved against `base`, designates (target_uri, tokens)."""
    also = draw(st.lists(st.sampled_from(OPTIONAL), max_size=3, unique=True))
    frag = optr.encode(list(tokens), also)
    forms = []
    labels = {}
    if allow_fragment_only and target_uri == own_doc:
        f = "#" + frag
        forms += [f, f]
        labels[f] = "fragment-only"
    if target_uri:
        f = target_uri + "#" + frag
        forms.append(f)
        labels[f] = "absolute"
        if not tokens:
            forms.append(target_uri)
            labels[target_uri] = "absolute-no-fragment"
        if base:
            for r in relative_forms(doc_uri(base), target_uri):
                f = r + ("#" + frag if tokens or draw(st.booleans()) else "")
                forms.append(f)
                labels[f] = "relative"
    if not forms:
        return None, None
    f = draw(st.sampled_from(forms))
    return f, labels[f]


def _defs_of(doc):
    d = doc.get("definitions")
    return d if isinstance(d, dict) else {}


@st.composite
def worlds(draw, ninst=3, hostile_names=True, split_paths=False, foreign_ids=False):
    """split_paths: put the root's own use of the shared fragment text and the reference into an external
    document that uses the same text under different properties, and add instances reaching only one of them
    (history-dependence needs validations that take different paths)."""
    d = draw(st.sampled_from(impl.DRAFTS))
    idkw = impl.IDKW[d]
    classes = []
    exotic = draw(st.integers(0, 24)) == 0
    root_base = draw(st.sampled_from(EXOTIC_BASES if exotic else ROOT_BASES))
    if exotic:
        classes.append("exotic-scheme")
    if root_base.endswith("#"):
        classes.append("root-id-trailing-#")
    names = DEF_NAMES if hostile_names else ["a", "b", "c"]
    # ---- external documents -------------------------------------------------------------------
    ext = draw(st.lists(st.sampled_from(EXT_URIS), max_size=3, unique=True))
    twin = None
    if TWINS[0] in ext and TWINS[1] not in ext and draw(st.booleans()):
        ext = ext[:2] if TWINS[0] in ext[:2] else [TWINS[0], ext[0]]
        ext.append(TWINS[1])
    if TWINS[0] in ext and TWINS[1] in ext:
        classes.append("escaped-twin-documents")
        twin = draw(st.sampled_from(["handler", "handler", "store", None]))
    docs, via = {}, {}
    targets = []            # (uri, tokens, is_recursive_ok)
    # one definition name present in the root AND in the external documents, referred to by the very same
    # fragment-only string from inside each: same reference text, different base, different target
    shared = draw(st.sampled_from(names))
    shared_ref = "#" + optr.encode(["definitions", shared])
    for u in ext:
        dd = {"definitions": dict((n, draw(leaf)) for n in draw(st.lists(st.sampled_from(names), min_size=1, max_size=3, unique=True)))}
        dd["definitions"][shared] = draw(leaf)
        dd.update(draw(leaf))
        if draw(st.booleans()):
            dd[idkw] = u
        docs[u] = dd
        via[u] = draw(st.sampled_from(["store", "store", "store#", "handler", "handler", "missing"]))
        if twin and u in TWINS:
            via[u] = twin
        if via[u] == "store#":
            classes.append("store-key-trailing-#")
        targets.append((u, ()))
        for n in dd["definitions"]:
            targets.append((u, ("definitions", n)))
    # references INSIDE external documents: fragment-only (their own document) or relative to a sibling document
    for u in ext:
        if draw(st.booleans()):
            continue
        dd = docs[u]
        own = [t for t in targets if t[0] == u and t[1]]
        others = [t for t in targets if t[0] != u]
        pool = own + own + others
        tu, tt = draw(st.sampled_from(pool))
        if draw(st.booleans()):
            r, lab = shared_ref, "fragment-only"
            classes.append("same-fragment-text-different-base")
        else:
            r, lab = draw(render_ref(u, u, tu, tt, True))
        if r is None:
            continue
        name = draw(st.sampled_from(["r", "r/1", "~r"]))
        if name in dd["definitions"]:
            continue
        dd["definitions"][name] = {"$ref": r}
        targets.append((u, ("definitions", name)))
        classes.append("remote-internal-ref:" + lab)
    root_doc = doc_uri(root_base)
    # ---- root definitions: layer 0 ref-free, layer 1 may refer to layer 0 / externals ----------
    defs = {}
    l0 = draw(st.lists(st.sampled_from(names), min_size=1, max_size=4, unique=True))
    if shared not in l0:
        l0.append(shared)
    for n in l0:
        defs[n] = draw(leaf)
        targets.append((root_doc, ("definitions", n)))
    base0 = list(targets)

    def mkref(base, allow_frag, pool):
        tu, tt = draw(st.sampled_from(pool))
        r, lab = draw(render_ref(base, root_doc, tu, tt, allow_frag))
        if r is None:
            return None
        obj = {"$ref": r}
        classes.append("ref:" + lab)
        if tu != root_doc:
            classes.append("remote:" + via.get(tu, "?"))
        if any(any(c in t for c in "~/%#? \"\\") or t == "" or any(ord(c) > 127 for c in t) for t in tt):
            classes.append("hostile-name")
        if draw(st.integers(0, 4)) == 0:
            sib = draw(leaf)
            if not (d == 3 and "required" in sib):
                if draw(st.booleans()):
                    obj.update(sib)
                else:               # member order must not matter: siblings written BEFORE $ref
                    obj = dict(sib, **obj)
                    classes.append("sibling-before-ref")
                classes.append("sibling-ignored")
        if draw(st.integers(0, 49)) == 0:
            # an id written next to $ref is a sibling like any other: ignored (drafts <= 7)
            obj[idkw] = draw(st.sampled_from(["http://ex.test/elsewhere/", "zzz/", "http://other.test/e.json"]))
            classes.append("id-sibling-of-ref")
        return obj

    for n in draw(st.lists(st.sampled_from(names), max_size=2, unique=True)):
        if n in defs:
            continue
        r = mkref(root_base, True, base0)
        if r is None:
            continue
        defs[n] = r if draw(st.booleans()) else {"allOf" if d >= 4 else "extends": [r, draw(leaf)]}
        targets.append((root_doc, ("definitions", n)))
        classes.append("chain")
    # recursive definition
    if draw(st.integers(0, 2)) == 0:
        rn = draw(st.sampled_from(["tree", "t/r~e"]))
        rt = ("definitions", rn)
        r, lab = draw(render_ref(root_base, root_doc, root_doc, rt, True))
        if r is not None:
            key = draw(st.sampled_from(["properties", "items", "additionalProperties"]))
            body = dict(draw(leaf))
            if body.get("type") not in (None, "object", "array"):
                body = {}
            if draw(st.integers(0, 3)) == 0 and not exotic:
                # the empty reference: RFC 3986 section 4.4, the current document (its root)
                r = draw(st.sampled_from(["", "#"]))
                classes.append("empty-ref-inside-definition" if r == "" else "root-ref-inside-definition")
            if key == "properties":
                body["properties"] = {"c": {"$ref": r}, "k": draw(leaf)}
            else:
                body[key] = {"$ref": r}
            defs[rn] = body
            targets.append((root_doc, rt))
            classes.append("recursive-definition")
    # ---- root body ----------------------------------------------------------------------------
    root = {}
    if root_base:
        root[idkw] = root_base
    root["definitions"] = defs
    allpool = list(targets)

    def REF(base=root_base, allow_frag=True, pool=None):
        if pool is None and not exotic and draw(st.integers(0, 5)) == 0:
            return {"$ref": shared_ref}
        r = mkref(base, allow_frag, pool or allpool)
        return r if r is not None else draw(leaf)

    positions = ["properties", "items", "items-array", "additionalProperties", "patternProperties", "dependencies",
                 "additionalItems"]
    if d >= 4:
        positions += ["allOf", "anyOf", "oneOf", "not"]
    else:
        positions += ["extends", "extends-array", "type-union", "disallow"]
    if d >= 6:
        positions += ["contains", "propertyNames"]
    if d >= 7:
        positions += ["if"]
    for pos in draw(st.lists(st.sampled_from(positions), min_size=1, max_size=3, unique=True)):
        if pos == "properties":
            root["properties"] = dict((k, REF()) for k in draw(st.lists(inst_keys, min_size=1, max_size=3, unique=True)))
            if draw(st.integers(0, 1)) == 0:
                root["properties"]["k"] = {"$ref": draw(st.sampled_from(["#", "", "#", ""]))} if not exotic else REF()
                if draw(st.integers(0, 2)) == 0 and "$ref" in root["properties"]["k"]:
                    root["properties"]["k"].update(draw(leaf))
                    classes.append("sibling-ignored")
                classes.append("recursive-root")
        elif pos == "items":
            root["items"] = REF()
        elif pos == "items-array":
            root["items"] = [REF() for _ in range(draw(st.integers(1, 3)))]
        elif pos == "additionalItems":
            root.setdefault("items", [draw(leaf)])
            if isinstance(root["items"], list):
                root["additionalItems"] = REF()
        elif pos == "additionalProperties":
            root["additionalProperties"] = REF()
        elif pos == "patternProperties":
            root["patternProperties"] = {draw(st.sampled_from(["^a", "b", ""])): REF()}
        elif pos == "dependencies":
            root["dependencies"] = {draw(inst_keys): REF()}
        elif pos in ("allOf", "anyOf", "oneOf"):
            root[pos] = [REF() if draw(st.booleans()) else draw(leaf) for _ in range(draw(st.integers(1, 3)))]
            if draw(st.integers(0, 2)) == 0 and isinstance(root[pos][0], dict) and "$ref" in root[pos][0]:
                root[pos].append(copy.deepcopy(root[pos][0]))      # the same definition reached by two routes for one node
                classes.append("two-routes-to-one-definition")
        elif pos == "not":
            root["not"] = REF()
        elif pos == "extends":
            root["extends"] = REF()
        elif pos == "extends-array":
            root["extends"] = [REF() for _ in range(draw(st.integers(1, 2)))]
        elif pos == "type-union":
            root["type"] = [REF(), draw(st.sampled_from(["string", "null", "integer"]))]
        elif pos == "disallow":
            root["disallow"] = [REF()]
        elif pos == "contains":
            root["contains"] = REF()
        elif pos == "propertyNames":
            root["propertyNames"] = REF()
        elif pos == "if":
            root["if"] = REF()
            root[draw(st.sampled_from(["then", "else"]))] = REF()
    # ---- nested id changing the base on the way to a reference ---------------------------------
    nested_instances = []
    ext_targets = [t for t in targets if t[0] != root_doc]
    if ext_targets and draw(st.integers(0, 2)) == 0 and (root_base.startswith("http") or draw(st.booleans())):
        if root_base.startswith("http") and draw(st.booleans()):
            nid = draw(st.sampled_from(["sub/", "dir/x.json", "/sub/y.json", "../z.json", "other/"]))
        else:
            nid = draw(st.sampled_from(["http://ex.test/sub/", "http://ex.test/dir/n.json", "http://other.test/q/"]))
        nbase = ouri.join(root_base, nid) if root_base else nid
        if ouri.parse(nbase)[0] in ("http",):
            r = mkref(nbase, False, ext_targets)
            if r is not None:
                inner_key = draw(st.sampled_from(["items", "additionalProperties"] + (["allOf"] if d >= 4 else ["extends"])))
                holder = {idkw: nid}
                holder[inner_key] = [r] if inner_key in ("allOf",) else r
                k = draw(st.sampled_from(["n1", "a"]))
                wrap = draw(st.sampled_from(["plain", "plain", "not", "anyOf", "oneOf", "contains"]))
                if wrap == "not" and d >= 4:
                    holder = {"not": holder}
                elif wrap in ("anyOf", "oneOf") and d >= 4:
                    holder = {wrap: [holder, draw(leaf)]}
                elif wrap == "contains" and d >= 6:
                    holder = {"contains": holder}
                elif wrap != "plain" and d == 3:
                    holder = {"disallow": [holder]}
                if wrap != "plain":
                    classes.append("nested-id-under-verdict-only-keyword")
                props = root.get("properties") if isinstance(root.get("properties"), dict) else {}
                if draw(st.booleans()):
                    # evaluated BEFORE the other properties: whatever it leaves behind meets their references
                    root["properties"] = dict([(k, holder)] + [(kk, vv) for kk, vv in props.items() if kk != k])
                else:
                    props[k] = holder
                    root["properties"] = props
                classes.append("nested-id")
                v1, v2 = draw(inst_scalar), draw(inst_scalar)
                nested_instances = [{k: [v1, v2], "b": v2, "a": v1}, {k: {"z": v1}, "c": v2}, {k: v2}]
                if not nid.startswith("http"):
                    classes.append("nested-id-relative")
    if d >= 6 and draw(st.booleans()):
        # trivial targets: the boolean schemas (and {} above) as definitions in the root and in external documents
        for holder in [defs] + [dd["definitions"] for dd in docs.values()]:
            for n in list(holder):
                if isinstance(holder[n], dict) and "$ref" not in holder[n] and draw(st.integers(0, 5)) == 0:
                    holder[n] = draw(st.booleans())
                    classes.append("boolean-definition")
    if draw(st.integers(0, 2)) == 0 and isinstance(root.get("properties", {}), dict):
        # a subschema that carries an id of its own but no reference beneath it: while an error iterator is
        # suspended inside it, the scope stack holds that id (harmless unless something else reads the stack)
        lf = dict(draw(leaf))
        lf[idkw] = draw(st.sampled_from(["name.json", "sub/", "http://ex.test/elsewhere/x.json", "../up.json"]))
        root.setdefault("properties", {})[draw(st.sampled_from(["a", "b", "idl"]))] = lf
        classes.append("id-on-leaf")
    foreign_instances = []
    if foreign_ids:
        # a retrieved document that declares ANOTHER document's URL as its own id (two documents claiming one
        # identity): only for checks that compare the implementation with itself (C07)
        hd = [u for u in ext if via[u] == "handler"]
        if len(hd) >= 2 and draw(st.booleans()):
            a, b = hd[0], hd[1]
            docs[a][idkw] = b
            classes.append("document-claims-foreign-id")
            if isinstance(root.get("properties", {}), dict):
                nb = sorted(docs[b]["definitions"])[0]
                root.setdefault("properties", {})["f1"] = {"$ref": a}
                root["properties"]["f2"] = {"$ref": b + "#" + optr.encode(["definitions", nb])}
                foreign_instances = [{"f1": draw(inst_scalar)}, {"f2": draw(inst_scalar)}]
            else:
                foreign_instances = []
    if root_base == "" and defs and draw(st.integers(0, 11)) == 0:
        # the root itself is a reference object; what stands next to $ref (anything but an id) is ignored in drafts <= 7
        n = draw(st.sampled_from(sorted(defs)))
        sib = draw(st.sampled_from([{"type": "string"}, {"type": "integer"}, {"type": "null"}, {"enum": ["zz-never"]},
                                    {"minimum": 10 ** 9}, {"type": "object"}]))
        root = dict([("$ref", "#" + optr.encode(["definitions", n]))] + list(sib.items()) + [(k, v) for k, v in root.items() if k not in sib])
        classes.append("root-is-a-reference-with-siblings")
    lists = [n for n in defs if isinstance(defs[n], dict) and isinstance(defs[n].get("allOf", defs[n].get("extends")), list)]
    if lists and not exotic and isinstance(root.get("properties", {}), dict) and draw(st.integers(0, 3)) == 0:
        # a pointer into an ARRAY of subschemas: canonical indices designate an element, anything else nothing
        n = draw(st.sampled_from(sorted(lists)))
        kw = "allOf" if "allOf" in defs[n] else "extends"
        tok = draw(st.sampled_from(["0", "1", "%31", "1", "0", "1%0A", "01", "-", "1%D9%A0", "2", "%20" + "1", "+1"]))
        root.setdefault("properties", {})["bi"] = {"$ref": "#" + optr.encode(["definitions", n, kw]) + "/" + tok}
        classes.append("array-index-ref:" + ("canonical" if tok in ("0", "1", "%31") else "not-an-index"))
    coll = [(u, r) for u in sorted(docs) if via[u] != "missing" and root_base.startswith("http") and not exotic
            for r in relative_forms(doc_uri(root_base), u)[:1]]
    if foreign_ids and coll and draw(st.integers(0, 2)) > 0 and isinstance(root.get("properties", {}), dict):
        # a subschema of the root whose (relative) id spells the URL of a retrievable document, and references to
        # that URL from two different scopes: whichever resource the implementation picks, it must pick the same
        # one every time (again only for checks that compare the implementation with itself)
        cu, crel = draw(st.sampled_from(coll))
        lf = dict(draw(leaf))
        lf[idkw] = crel
        props = root.setdefault("properties", {})
        props["e3"] = lf
        props["e1"] = {"$ref": cu}
        props["e2"] = {idkw: "http://other.test/q/deep/", "additionalProperties": {"$ref": cu}}
        classes.append("embedded-id-spells-a-document-url")
        v1, v2 = draw(inst_scalar), draw(inst_scalar)
        foreign_instances = list(foreign_instances) + [{"e1": v1}, {"e2": {"z": v1}}, {"e1": v2, "e2": {"z": v2}}]
    if foreign_ids and not exotic and draw(st.integers(0, 3)) == 0 and isinstance(root.get("properties", {}), dict):
        # a property whose reference can never be resolved (every call that reaches it ends in RefResolutionError, at
        # whatever point of whatever entry point) next to one that fails with per-branch context: what a call that
        # died half-way leaves behind must not colour the next one (again for self-comparison only)
        props = root.setdefault("properties", {})
        props["mr"] = {"$ref": "http://ex.test/absent-document.json#/definitions/a"}
        props["ao"] = {"anyOf" if d >= 4 else "type": [{"type": "null"}, {"minimum": 5, "type": "number"}]}
        if d >= 4:
            props["oo"] = {"oneOf": [{"type": "integer"}, {"minimum": 0}, {"maximum": 10}]}
        classes.append("dies-half-way")
        foreign_instances = list(foreign_instances) + [{"mr": 1}, {"ao": "s", "oo": 3}, {"ao": 1, "mr": 2}, {"oo": 3.5, "ao": None}]
    if draw(st.integers(0, 7)) == 0:
        # the OTHER draft family's id keyword is an unknown keyword here: it must not change any base URI
        other = "$id" if idkw == "id" else "id"
        root[other] = draw(st.sampled_from(["http://ex.test/elsewhere/", "http://other.test/q/", "zzz/"]))
        classes.append("foreign-id-keyword")
    xs = draw(st.lists(instances(), min_size=ninst, max_size=ninst))
    plain_items_ref = isinstance(root.get("items"), dict) and set(root["items"]) == {"$ref"}
    if draw(st.integers(0, 3)) == 0 or (plain_items_ref and draw(st.booleans())):
        # sizes far beyond the rest: an object with two dozen members, an array of forty elements, both also nested once
        v1, v2 = draw(inst_scalar), draw(inst_scalar)
        big_o = dict([(k, v1) for k in ("a", "b", "c", "k", "")] + [("w%d" % i, v2 if i % 2 else i) for i in range(20)])
        big_a = [v1 if i % 3 else v2 for i in range(40)]
        xs = [big_a] + xs + [big_o, {"a": big_o, "b": big_a, "k": big_o}, [big_o, big_a, big_o]]
        classes.append("big-instances")
    if foreign_instances:
        xs = list(draw(st.permutations(foreign_instances))) + xs
    if nested_instances:
        xs = xs[:1] + nested_instances
    if "recursive-root" in classes:
        xs[-1] = {"k": draw(st.one_of(inst_scalar, st.dictionaries(inst_keys, inst_scalar, max_size=2)))}
        if draw(st.integers(0, 2)) == 0:
            # the same reference entered once per level of a deeply nested instance (legitimate recursion, no cycle)
            deep = draw(inst_scalar)
            body_refs = impl.cj(dict((k_, v_) for k_, v_ in root.items() if k_ != "definitions")).count('"$ref"')
            # with a single route back into the root the work is linear in the depth; with several it doubles per
            # level (for the implementation and for the oracle alike), so those get a depth that stays affordable
            for _ in range(66 if body_refs == 1 else 12):
                deep = {"k": deep}
            xs.append(deep)
            classes.append("deep-recursion")
    if split_paths:
        inner = [(u, t) for (u, t) in targets if u != root_doc and t and t[-1] in ("r", "r/1", "~r")]
        if inner and not exotic and isinstance(root.get("properties", {}), dict):
            tu, tt = draw(st.sampled_from(inner))
            r, lab = draw(render_ref(root_base, root_doc, tu, tt, False))
            if r is not None:
                props = root.setdefault("properties", {})
                props["s1"] = {"$ref": shared_ref}
                props["s2"] = {"$ref": r}
                classes.append("split-paths")
                v1, v2 = draw(inst_scalar), draw(inst_scalar)
                order = draw(st.permutations([{"s1": v1}, {"s2": v2}, {"s1": v2, "s2": v1}]))
                xs = list(order) + xs
    explicit_base = root_base.startswith("http") and draw(st.integers(0, 3)) == 0
    if explicit_base:
        classes.append("explicit-base-differs-from-root-id")
    alias = draw(st.integers(0, 5)) == 0
    if alias:
        classes.append("aliased-parts")
    return {"kind": "world", "draft": d, "root": root, "docs": docs, "via": via, "instances": xs,
            "explicit_base": explicit_base, "alias": alias, "classes": sorted(set(classes))}


# ---------------------------------------------------------------------------------------------
# using a world

def instances_of(case):
    """The world's instances; with the `alias` flag, equal arrays / objects inside ONE instance are one Python object
    (also after a replay from JSON, where the generator's own sharing is lost)."""
    if case.get("alias"):
        return [impl.alias_equal(copy.deepcopy(x)) for x in case["instances"]]
    return case["instances"]


def root_uri(case):
    idkw = impl.IDKW[case["draft"]]
    rid = case["root"].get(idkw, "") if isinstance(case["root"], dict) else ""
    return rid if isinstance(rid, str) else ""


METAS = {}


def meta_docs():
    if not METAS:
        for dd, cls in impl.CLS.items():
            mid = cls.ID_OF(cls.META_SCHEMA)
            METAS[ouri.defrag(mid)[0]] = cls.META_SCHEMA
    return METAS


def oracle_resolver(case, available=None):
    """Independent resolver over the world: root under its own URI, every non-missing document."""
    docs = dict(meta_docs())
    for u, dd in case["docs"].items():
        state = case["via"].get(u, "store")
        if available is not None:
            if u in available:
                docs[u] = dd
        elif state != "missing":
            docs[u] = dd
    docs[doc_uri(root_uri(case))] = case["root"]
    return spec.WorldResolver(docs)


class Handler(object):
    """Counting retrieval handler for the world's documents."""

    def __init__(self, case, down=()):
        self.case = case
        self.calls = []
        self.down = set(down)

    delay = 0.0

    def __call__(self, uri):
        self.calls.append(uri)
        if self.delay:
            import time
            time.sleep(self.delay)      # widens the window in which two threads are fetching at once (C18)
        u = ouri.defrag(uri)[0]
        if u in self.case["docs"] and self.case["via"].get(u) == "handler" and u not in self.down:
            return copy.deepcopy(self.case["docs"][u])
        raise OSError("no such document: %s" % uri)


def build_validator(case, handler=None, **resolver_kwargs):
    d = case["draft"]
    cls = impl.CLS[d]
    root = copy.deepcopy(case["root"])
    if case.get("alias"):
        # equal parts of the root and of the stored documents are one Python object (schemas assembled from shared
        # fragments): the same subschema text then lives under several base URIs at once
        pool = {}
        root = impl.alias_equal(root, pool)
        case = dict(case, docs=dict((u, impl.alias_equal(copy.deepcopy(dd), pool)) for u, dd in case["docs"].items()))
        _dc = lambda v: v       # noqa: E731  (keep the sharing)
    else:
        _dc = copy.deepcopy
    if case.get("explicit_base") and root_uri(case).startswith("http"):
        # the document was retrieved from somewhere else than its id says (RefResolver(base_uri, referrer, ...), as
        # the CLI's --base-uri does): its own id still is the base for everything inside it
        store = dict((u + ("#" if case["via"].get(u) == "store#" else ""), _dc(dd))
                     for u, dd in case["docs"].items() if case["via"].get(u) in ("store", "store#"))
        store[doc_uri(root_uri(case))] = root
        handler = handler or Handler(case)
        resolver = impl.validators.RefResolver(
            "http://retrieved-from.test/some/where.json", root, store=store,
            handlers={"http": handler, "https": handler}, **resolver_kwargs)
        v = cls(root, resolver=resolver)
        v._verif_handler = handler
        return v
    # "store#": the document is supplied under its URI with an empty fragment (common for draft 3/4 ids)
    store = dict((u + ("#" if case["via"].get(u) == "store#" else ""), _dc(dd))
                 for u, dd in case["docs"].items() if case["via"].get(u) in ("store", "store#"))
    handler = handler or Handler(case)
    resolver = impl.validators.RefResolver.from_schema(
        root, id_of=cls.ID_OF, store=store, handlers={"http": handler, "https": handler, "x-sch": handler,
                                                      "urn": handler, "tag": handler}, **resolver_kwargs)
    v = cls(root, resolver=resolver)
    v._verif_handler = handler
    return v


def all_refs(d, doc):
    for path, sub in walk.walk(d, doc):
        if isinstance(sub, dict) and "$ref" in sub:
            yield path, sub


def wellformed(case, allow_foreign_ids=False):
    """Structural guard (also protects against shrinking out of the claimed domain)."""
    try:
        d = case["draft"]
        if d not in impl.DRAFTS or not isinstance(case["root"], dict) or not isinstance(case["docs"], dict):
            return False, "malformed-world"
        if not isinstance(case["instances"], list) or not isinstance(case["via"], dict):
            return False, "malformed-world"
        cls = impl.CLS[d]
        idkw = impl.IDKW[d]
        other = "$id" if idkw == "id" else "id"
        for doc in [case["root"]] + list(case["docs"].values()):
            if not isinstance(doc, dict):
                return False, "malformed-world"
            for path, sub in walk.walk(d, doc):
                if isinstance(sub, dict):
                    if "$ref" in sub and not isinstance(sub["$ref"], str):
                        return False, "non-string-ref"
                    if idkw in sub and not isinstance(sub[idkw], str):
                        return False, "non-string-id"
            try:
                cls.check_schema(doc)
            except impl.exceptions.SchemaError:
                return False, "document-rejected-by-check_schema"
            except Exception as e:
                # not a judgement about the document: the implementation could not even apply its metaschema
                return False, "check_schema-raises:%s" % type(e).__name__
        for u in case["docs"]:
            if case["via"].get(u) not in ("store", "store#", "handler", "missing"):
                return False, "malformed-world"
            did = case["docs"][u].get(idkw)
            if did is not None and doc_uri(did) != u and not allow_foreign_ids:
                return False, "store-id-differs-from-uri"
        return True, ""
    except Exception as e:
        return False, "malformed-world:%s" % type(e).__name__


def depth(x):
    if isinstance(x, list):
        return 1 + max([depth(e) for e in x] or [0])
    if isinstance(x, dict):
        return 1 + max([depth(e) for e in x.values()] or [0])
    return 0


DESCENDING = ("properties", "patternProperties", "additionalProperties", "items", "additionalItems", "contains",
              "propertyNames")


class Inexpandable(Exception):
    pass


def expand(case, x_depth, resolver=None):
    """Reference-free expansion of the root schema: every reference object is replaced by a deep copy of the schema
    it designates (O-URI / O-PTR), siblings dropped, ids stripped, recursion unrolled while the instance can still
    reach it (instance-descending applicators consume one level of x_depth)."""
    d = case["draft"]
    idkw = impl.IDKW[d]
    resolver = resolver or oracle_resolver(case)
    budget = [4000]

    def ex(s, base, remaining, hops, position):
        budget[0] -= 1
        if budget[0] < 0:
            raise Inexpandable("expansion too large")
        if isinstance(s, bool) or not isinstance(s, dict):
            return s
        if "$ref" in s:
            if remaining < 0:
                return {}
            if hops > 40:
                raise Inexpandable("reference cycle that does not descend into the instance")
            nb, target = resolver.resolve(base, s["$ref"])
            out = ex(target, nb, remaining, hops + 1, None)
            if isinstance(out, bool) and position in ("additionalProperties", "additionalItems"):
                out = {"allOf": [out]}
            return out
        sid = s.get(idkw)
        if isinstance(sid, str) and sid:
            base = ouri.join(base, sid)
        out = {}
        for k, v in s.items():
            if k == idkw:
                continue
            # containers of subschemas are replaced member by member below: a shallow copy is all that is needed
            # (deep copies of every `definitions` at every level made large expansions take minutes)
            out[k] = copy.copy(v) if isinstance(v, (dict, list)) and k != "definitions" else v
        for path, sub in list(walk.children(d, s)):
            kw = path[0]
            if kw == "definitions":
                continue
            rem = remaining - 1 if kw in DESCENDING else remaining
            if kw == "propertyNames":
                rem = min(rem, 0)
            new = ex(sub, base, rem, 0 if kw in DESCENDING else hops, kw)
            if len(path) == 1:
                out[kw] = new
            else:
                out[kw][path[1]] = new
        out.pop("definitions", None)
        return out

    return ex(case["root"], root_uri(case), x_depth, 0, None)


def static_unresolvable(case, resolver=None):
    """Every reference string of every available document, resolved statically under the base in effect at
    its position (over-approximates what an evaluation can meet).  Returns the list of those that do not
    resolve according to the independent resolver."""
    d = case["draft"]
    idkw = impl.IDKW[d]
    resolver = resolver or oracle_resolver(case)
    bad = []

    def go(s, base, depth):
        if not isinstance(s, dict) or depth > 60:
            return
        if "$ref" in s:
            try:
                resolver.resolve(base, s["$ref"])
            except (spec.Unresolvable, optr.PointerError):
                bad.append(s["$ref"])
            return
        sid = s.get(idkw)
        if isinstance(sid, str) and sid:
            base = ouri.join(base, sid)
        for _, sub in walk.children(d, s):
            go(sub, base, depth + 1)

    go(case["root"], root_uri(case), 0)
    for u, dd in case["docs"].items():
        if case["via"].get(u) != "missing":
            go(dd, u, 0)
    return bad


def known_finding_class(case):
    """Worlds that carry the syntactic mark of an open known finding of C02 (exotic URI scheme, id next to
    $ref).  C02 judges them (and reports KNOWN-FINDING); the other world-based checks leave them out."""
    from .. import known
    if known.neutralise_exotic_scheme(case)[1]:
        return "C02-known-finding:exotic-scheme"
    if known.neutralise_id_sibling(case)[1]:
        return "C02-known-finding:id-sibling-of-ref"
    return None
