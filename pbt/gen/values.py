"""G-VAL / G-NUM / G-STR / G-KEY / G-RE: JSON values, numbers by magnitude class,
strings and keys from a small colliding alphabet plus a hostile one, and regular
expressions from the subset on which Python `re.search` and ECMA 262 agree."""
import math
import sys

from hypothesis import strategies as st

KEYS_SMALL = ["a", "b", "c", "ab", "ba", "aa", "abc", "bb", "0", "1"]
KEYS_HOSTILE = ["", "/", "~", "~0", "~1", "~01", "%", "%25", "#", "?", " ", '"', "\\", "é",
                "\U0001F600", "01", "-1", "required", "then", "$ref", "a/b", "a~b", "x y", "items", "a.b", "a[0]", "b.c", "$", "[0]",
                "a.b.c", "if", "else", "properties", "type", "enum", "id", "$id", "not", "2024", "12"]

keys = st.one_of(st.sampled_from(KEYS_SMALL), st.sampled_from(KEYS_SMALL), st.sampled_from(KEYS_HOSTILE))
small_keys = st.sampled_from(KEYS_SMALL)
hostile_keys = st.sampled_from(KEYS_HOSTILE)

STRS = ["", "a", "b", "ab", "ba", "abc", "aa", "bb", "aab", "cab", "c", "\U0001F600", "é", "0", "a b"]
strs = st.one_of(st.sampled_from(STRS), st.text(alphabet="abc", max_size=5))

F = float
SMALL_INTS = st.integers(-4, 6)
EDGE_INTS = st.sampled_from([2 ** 53 - 1, 2 ** 53, 2 ** 53 + 1, 2 ** 53 + 2, -(2 ** 53) - 1, 2 ** 63, 2 ** 63 + 1,
                             2 ** 64, 10 ** 20, 10 ** 30 + 1, 10 ** 400, -10 ** 400, 10 ** 400 + 1, 3 * 10 ** 308,
                             2 ** 1024, 2 ** 1024 + 1, 7 * 10 ** 1000])
FLOATS = st.sampled_from([0.0, -0.0, 1.0, 2.0, 3.0, -1.0, 0.5, 1.5, 2.5, -0.5, 0.25, 0.75, 0.1, 0.3, 1.1,
                          F(2 ** 53), F(2 ** 53) + 2.0, 1e300, -1e300, 1e308, sys.float_info.max,
                          -sys.float_info.max, 5e-324, 1e-320, 2.0 ** -1022, 2.0 ** -20, 12.0, 100.0, 1e20])


@st.composite
def near(draw, base):
    """A number at or next to `base`."""
    kind = draw(st.integers(0, 7))
    if kind == 0:
        return base
    if isinstance(base, int):
        return base + draw(st.sampled_from([-2, -1, 1, 2])) if kind < 4 else (
            float(base) if abs(base) < 2 ** 53 and kind < 6 else base * 2)
    if math.isfinite(base):
        if kind == 1:
            return math.nextafter(base, math.inf)
        if kind == 2:
            return math.nextafter(base, -math.inf)
        if kind == 3 and base == int(base) and abs(base) < 1e300:
            return int(base)
        if kind == 4 and base == int(base) and abs(base) < 1e300:
            return int(base) + draw(st.sampled_from([-1, 1]))
        if kind == 5:
            return base * 2
        if kind == 6:
            return base / 2
    return base


nums = st.one_of(SMALL_INTS, SMALL_INTS, FLOATS, EDGE_INTS)
plain_nums = st.one_of(SMALL_INTS, st.sampled_from([0.0, 1.0, 2.0, 0.5, 1.5, 2.5, -0.5, 0.25, 3.0, 10, 12, 100]))

scalars = st.one_of(st.none(), st.booleans(), plain_nums, strs)
scalars_wide = st.one_of(st.none(), st.booleans(), nums, strs)


def values(max_leaves=8, wide=False, key_strategy=None):
    ks = key_strategy or keys
    base = scalars_wide if wide else scalars
    return st.recursive(
        base,
        lambda c: st.one_of(st.lists(c, max_size=4), st.dictionaries(ks, c, max_size=4)),
        max_leaves=max_leaves)


inst = values(8)

# ---- regular expressions ------------------------------------------------------------------
# Language identical under Python re.search and ECMA 262 on strings without line terminators.
PATTERNS = ["a", "b", "c", "ab", "ba", "^a", "a$", "b$", "^b", "^$", "", "a|b", "^ab?$", ".", "^.$", "^..$", "a+",
            "a*", "(a)\\1", "(b)\\1", "[ab]c?", "^[^a]", "^[^a]*$", "a{2}", "(?:a|b)$", "^(a|b)+$", "b{1,2}$",
            "^a.*c$", "[0-9]", "^[0-9]+$", "\\.", "\\$", "^\\^", "c|^$", "(?:ab){2}", "^a|b$", "a.b", "bb",
            "\U0001F600", "é", "^\U0001F600$", " ", "^.{2,3}$", "x", "(?i)AB", "(?P<n>a)(?P=n)", "a\\$", "^[0-9]+\\$"]
patterns = st.sampled_from(PATTERNS)
# smaller pool for patternProperties names, so that several patterns meet the same keys
PP_PATTERNS = ["", "a", "b", "^a", "b$", "a|b", "(a)\\1", "(b)\\1", "^ab?$", ".", "^$", "[0-9]", "c", "^b", "ab", "^%",
               "%s", "a%", "^a$", "^ab$", "^b$",
               # expressions that are complete only as a whole: global inline flags, group names (two of them using
               # the same name are fine as long as nobody pastes them into ONE expression)
               "(?i)A", "(?P<n>a)", "(?P<n>b)b", "(?s)a.b"]
pp_patterns = st.sampled_from(PP_PATTERNS)
