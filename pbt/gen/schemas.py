"""G-SCHEMA: per-draft schema strategies, interaction-biased keyword choice.

`schemas(draft)` gives *well-meant* reference-free schemas (keyword values of the
shapes the draft prescribes); `liberal(draft)` also draws degenerate / odd
values and arbitrary JSON for keyword values (for C03 / C11)."""
import copy
import functools

from hypothesis import strategies as st

from . import values as V

T4 = ["null", "boolean", "integer", "number", "string", "array", "object"]
T3 = T4 + ["any"]

GROUPS = {
    "object": ["properties", "patternProperties", "additionalProperties", "required", "dependencies",
               "minProperties", "maxProperties", "propertyNames"],
    "array": ["items", "additionalItems", "minItems", "maxItems", "uniqueItems", "contains"],
    "number": ["minimum", "maximum", "exclusiveMinimum", "exclusiveMaximum", "multipleOf", "divisibleBy"],
    "string": ["minLength", "maxLength", "pattern"],
    "logic": ["allOf", "anyOf", "oneOf", "not", "if", "then", "else", "extends", "disallow", "type", "enum",
              "const"],
}

MULT = st.one_of(st.integers(1, 4), st.sampled_from([0.5, 0.25, 2.0, 1.5, 3, 10, 2.0 ** -30, 2.0 ** 40, 10 ** 20,
                                                      0.1]))
BOUNDS = st.one_of(st.integers(-3, 4), st.integers(-3, 4), st.sampled_from(
    [0.0, 0.5, 1.5, 2.5, -0.5, 1.0, 2.0, float(2 ** 53), 2 ** 53, 2 ** 53 + 1, 1e300, 10 ** 30, 10 ** 400]))
LENS = st.integers(0, 3)


def keyword_strategies(d, sub, types=None, inst=None):
    """name -> strategy of well-shaped values for draft d; `sub` draws subschemas."""
    inst = inst or V.inst
    types = types or (T3 if d == 3 else T4)
    subo = sub if d >= 6 else sub.filter(lambda s: isinstance(s, dict))
    tyel = st.sampled_from(types) if d >= 4 else st.one_of(st.sampled_from(types), st.sampled_from(types), subo)
    keys = V.keys
    kws = {
        "type": st.one_of(st.sampled_from(types),
                          st.lists(tyel, min_size=1, max_size=3, unique_by=repr)),
        "minimum": BOUNDS, "maximum": BOUNDS,
        "minLength": LENS, "maxLength": LENS, "pattern": V.patterns,
        "minItems": LENS, "maxItems": LENS, "uniqueItems": st.booleans(),
        "items": st.one_of(subo, st.lists(subo, min_size=(1 if d == 4 else 0), max_size=3)),
        "additionalItems": st.one_of(st.booleans(), subo),
        "properties": st.dictionaries(keys, subo, max_size=3),
        "patternProperties": st.dictionaries(V.pp_patterns, subo, max_size=3),
        "additionalProperties": st.one_of(st.booleans(), subo),
    }
    if d == 4:
        kws["enum"] = st.lists(inst, min_size=1, max_size=3, unique_by=repr)
    elif d == 3:
        kws["enum"] = st.lists(inst, min_size=1, max_size=3, unique_by=repr)
    else:
        kws["enum"] = st.lists(inst, min_size=0, max_size=3)
    if d <= 4:
        kws["exclusiveMinimum"] = st.booleans()
        kws["exclusiveMaximum"] = st.booleans()
    else:
        kws["exclusiveMinimum"] = BOUNDS
        kws["exclusiveMaximum"] = BOUNDS
        kws["const"] = inst
        kws["contains"] = subo
        kws["propertyNames"] = subo
    if d == 3:
        kws["divisibleBy"] = MULT
        kws["disallow"] = st.one_of(st.sampled_from(types), st.lists(tyel, min_size=1, max_size=3, unique_by=repr))
        kws["extends"] = st.one_of(subo, st.lists(subo, max_size=3))
        kws["dependencies"] = st.dictionaries(
            keys, st.one_of(subo, keys, st.lists(keys, min_size=1, max_size=2, unique=True)), max_size=2)
    else:
        kws["multipleOf"] = MULT
        kws["minProperties"] = LENS
        kws["maxProperties"] = LENS
        kws["required"] = st.lists(keys, min_size=(1 if d == 4 else 0), max_size=3, unique=True)
        kws["dependencies"] = st.dictionaries(
            keys, st.one_of(subo, st.lists(keys, min_size=(1 if d == 4 else 0), max_size=2, unique=True)),
            max_size=2)
        for k in ("allOf", "anyOf", "oneOf"):
            kws[k] = st.lists(subo, min_size=1, max_size=3)
        kws["not"] = subo
    if d >= 7:
        kws["if"] = subo
        kws["then"] = subo
        kws["else"] = subo
    return kws


def schema_object(d, sub, kwfun=keyword_strategies, max_kw=5):
    kws = kwfun(d, sub)
    names = sorted(kws)
    groups = dict((g, [k for k in ks if k in kws]) for g, ks in GROUPS.items())
    gnames = sorted(g for g in groups if groups[g])
    subo = sub if d >= 6 else sub.filter(lambda s: isinstance(s, dict))

    @st.composite
    def obj(draw):
        chosen = []
        if draw(st.integers(0, 9)) < 6:
            g = groups[draw(st.sampled_from(gnames))]
            chosen += draw(st.lists(st.sampled_from(g), min_size=1, max_size=min(4, len(g)), unique=True))
            chosen += draw(st.lists(st.sampled_from(names), max_size=2, unique=True))
        else:
            chosen += draw(st.lists(st.sampled_from(names), min_size=0, max_size=4, unique=True))
        chosen = list(dict.fromkeys(chosen))[:max_kw]
        # interaction bias
        if "additionalProperties" in chosen and draw(st.integers(0, 9)) < 8:
            for k in draw(st.sampled_from([["properties"], ["patternProperties"],
                                           ["properties", "patternProperties"]])):
                if k not in chosen:
                    chosen.append(k)
        if "additionalItems" in chosen and "items" not in chosen and draw(st.integers(0, 9)) < 9:
            chosen.append("items")
        if d >= 7 and ("then" in chosen or "else" in chosen) and "if" not in chosen and draw(st.integers(0, 9)) < 9:
            chosen.append("if")
        if d >= 7 and "if" in chosen and draw(st.integers(0, 9)) < 7:
            for k in draw(st.sampled_from([["then"], ["else"], ["then", "else"]])):
                if k not in chosen:
                    chosen.append(k)
        if d <= 4:
            for ex, base in (("exclusiveMinimum", "minimum"), ("exclusiveMaximum", "maximum")):
                if ex in chosen and base not in chosen:
                    chosen.append(base)
                elif base in chosen and ex not in chosen and draw(st.integers(0, 9)) < 5:
                    chosen.append(ex)
        o = {}
        for k in chosen:
            if k == "items" and "additionalItems" in chosen and draw(st.integers(0, 9)) < 8:
                o[k] = draw(st.lists(subo, min_size=(1 if d == 4 else 0), max_size=3))
            else:
                o[k] = draw(kws[k])
        if d == 3 and isinstance(o.get("properties"), dict):
            for pk, ps in o["properties"].items():
                if isinstance(ps, dict) and "required" not in ps and draw(st.integers(0, 9)) < 4:
                    ps["required"] = draw(st.booleans())
        # group-coherent branches: an in-place applicator (same instance, other schema object) gets a branch made
        # of keywords of the SAME family as its parent, so that sibling keywords of two schema objects meet on
        # one instance (state leaking from one object's keywords into the other's shows only there)
        inplace = [k for k in ("allOf", "anyOf", "oneOf", "extends", "not", "if", "then", "else", "dependencies")
                   if k in o]
        fam = [g for g in ("object", "array", "number", "string") if any(k in o for k in groups.get(g, []))]
        if inplace and fam and draw(st.integers(0, 9)) < 5:
            g = draw(st.sampled_from(fam))
            k = draw(st.sampled_from(inplace))
            gk = draw(st.lists(st.sampled_from(groups[g]), min_size=1, max_size=3, unique=True))
            branch = {}
            for name in gk:
                branch[name] = draw(kws[name])
            if d <= 4:
                for ex, base in (("exclusiveMinimum", "minimum"), ("exclusiveMaximum", "maximum")):
                    if ex in branch and base not in branch:
                        branch[base] = draw(kws[base])
            bks = draw(st.permutations(list(branch)))
            branch = dict((n, branch[n]) for n in bks)
            v = o[k]
            if isinstance(v, list) and v and all(isinstance(e, (dict, bool)) for e in v):
                v[draw(st.integers(0, len(v) - 1))] = branch
            elif isinstance(v, dict) and k == "dependencies":
                if v:
                    v[draw(st.sampled_from(sorted(v)))] = branch
            elif isinstance(v, (dict, bool)) and k != "dependencies":
                o[k] = branch
        ks = draw(st.permutations(list(o)))
        return dict((k, o[k]) for k in ks)

    return obj()


@functools.lru_cache(maxsize=None)
def schemas(d, max_leaves=8, kwfun=keyword_strategies):
    base = st.one_of(st.booleans(), st.just(None)) if d >= 6 else st.just(None)
    base = base.map(lambda b: {} if b is None else b)

    def level(sub):
        o = schema_object(d, sub, kwfun)
        return st.one_of(o, o, o, st.booleans()) if d >= 6 else o

    return st.recursive(base, level, max_leaves=max_leaves)


WIDE_SCALARS = list(range(10, 40)) + ["s%d" % i for i in range(20)] + [None, 2.5, True, 0.5, -7, "", 1e3, False]
WIDE_LEAVES = [{"type": "integer"}, {"type": "string"}, {"minimum": 3}, {"maxLength": 2}, {"enum": [1, "a"]}, {}]


def widen(s, pick, d=7):
    """One keyword of a generated root schema grown well beyond the sizes the grammar draws (lists of 3): code
    paths that only start above some length -- a lookup table for long enums, a set for many required names --
    are otherwise never entered.  `pick` is a drawn integer; deterministic given (s, pick)."""
    if not isinstance(s, dict):
        return s
    cands = [k for k in ("enum", "required", "properties", "items", "allOf", "anyOf", "oneOf", "extends", "type", "disallow",
                         "dependencies", "patternProperties")
             if k in s and (isinstance(s[k], (list, dict)))]
    if not cands:
        return s
    k = cands[pick % len(cands)]
    s = dict(s)
    v = s[k]
    n = 9 + pick % 14 if pick % 3 else 33 + pick % 20           # a third of them beyond 32
    if k == "enum":
        s[k] = list(v) + [e for e in WIDE_SCALARS if not any(e == o and type(e) is type(o) for o in v)][:n]
    elif k == "required" and isinstance(v, list):
        s[k] = list(v) + ["w%d" % i for i in range(n) if "w%d" % i not in v]
    elif k in ("properties", "patternProperties") and isinstance(v, dict):
        leaves = WIDE_LEAVES + ([{"required": True}, {"required": True, "type": "integer"}] if d == 3 and k == "properties" else [])
        extra = dict((("w%d" % i) if k == "properties" else ("^w%d$" % i), leaves[(i + pick) % len(leaves)]) for i in range(n))
        s[k] = dict(list(v.items()) + [(a, b) for a, b in extra.items() if a not in v])
    elif k == "dependencies" and isinstance(v, dict):
        s[k] = dict(list(v.items()) + [("w%d" % i, ["w%d" % (i + 1)]) for i in range(n) if "w%d" % i not in v])
    elif k in ("anyOf", "oneOf") and isinstance(v, list) and pick % 2:
        # alternatives that exclude one another by type, except where the drafts differ about what an integer is
        typed = [{"type": "integer"}, {"type": "string"}, {"type": "null"}, {"type": "boolean"}, {"type": "array"},
                 {"type": "object"}, {"type": "number", "maximum": -1000}, {"type": "string", "minLength": 99},
                 {"type": "array", "minItems": 99}, {"type": "number", "minimum": 10 ** 9}]
        s[k] = [e for e in v if isinstance(e, dict) and e.get("type") in ("string", "null", "boolean")][:1] + typed[:max(n, 8)]
    elif k in ("items", "allOf", "anyOf", "oneOf", "extends") and isinstance(v, list):
        s[k] = list(v) + [WIDE_LEAVES[(i + pick) % len(WIDE_LEAVES)] for i in range(n)]
    elif k in ("type", "disallow") and isinstance(v, list):
        s[k] = list(v) + [t for t in ("array", "boolean", "integer", "null", "number", "object", "string")
                          if t not in v][: 3 + pick % 5]
    return s


SINGLE_MEMBER = [{"enum": [1, "a"]}, {"enum": [0]}, {"enum": [True]}, {"enum": [[1], {"a": 0}]}, {"type": "integer"}, {"enum": [1.0, False]},
                 {"type": "number"}, {"enum": [None, 0.0]}]


def verdict_only(s, pick, d):
    """A one-keyword subschema put where only its verdict is asked for (not / contains / if / disallow / a second
    oneOf alternative): shortcuts for "trivial" subschemas live there."""
    if not isinstance(s, dict):
        return s
    s = dict(s)
    leaf = copy.deepcopy(SINGLE_MEMBER[pick % len(SINGLE_MEMBER)])
    where = (["not", "oneOf"] if d >= 4 else ["disallow"]) + (["contains", "if"] if d >= 6 else []) + (["if"] if d >= 7 else [])
    k = where[(pick // len(SINGLE_MEMBER)) % len(where)]
    if k == "oneOf":
        s[k] = [{"type": "string"}, leaf, copy.deepcopy(SINGLE_MEMBER[(pick + 3) % len(SINGLE_MEMBER)])]
    elif k == "disallow":
        s[k] = [leaf]
    elif k == "if":
        if d < 7:
            return s
        s["if"] = leaf
        s.setdefault("then", {"maxLength": 0, "maximum": -5, "maxItems": 0})
    else:
        s[k] = leaf
    return s


@functools.lru_cache(maxsize=None)
def root_schemas(d, max_leaves=8, kwfun=keyword_strategies):
    """Schemas whose root is an object with at least one keyword (most of the time); one in six has one keyword
    widened (see widen)."""
    sub = schemas(d, max_leaves, kwfun)
    plain = st.one_of(schema_object(d, sub, kwfun), schema_object(d, sub, kwfun), sub)
    return st.one_of(plain, plain, plain, plain, plain, plain,
                     st.tuples(plain, st.integers(0, 1000)).map(lambda t: widen(t[0], t[1], d)),
                     st.tuples(plain, st.integers(0, 1000)).map(lambda t: verdict_only(t[0], t[1], d)))


# ---- liberal flavour (C03 / C11) ----------------------------------------------------------

ODD = st.one_of(
    st.sampled_from([None, True, False, 0, 1, -1, 2, 0.0, 1.0, 2.0, 1.5, -0.0, 10 ** 400, 1e308, 5e-324, "", "a",
                     "string", "object", "#", "^a", "(", "[a-", "*a", "a{2,1}"]),
    st.builds(list), st.builds(dict),
    st.lists(st.sampled_from(["a", "b", "string", 1, None, True]), max_size=3),
    st.dictionaries(st.sampled_from(["a", "b", "type", "items"]),
                    st.sampled_from([True, False, 1, "a", "string"]).flatmap(
                        lambda v: st.one_of(st.just(v), st.builds(dict), st.builds(list))), max_size=2),
)


def liberal_keyword_strategies(d, sub):
    good = keyword_strategies(d, sub)
    out = {}
    for k, s in good.items():
        out[k] = st.one_of(s, s, ODD, V.inst)
    # names the metaschemas mention that have no keyword function or that matter as annotations
    for k in ("default", "title", "description", "definitions", "format", "examples", "$comment", "readOnly",
              "contentMediaType", "contentEncoding", "id", "$id", "$schema"):
        if k == "definitions":
            out[k] = st.one_of(st.dictionaries(V.keys, sub, max_size=2), ODD)
        elif k == "format":
            out[k] = st.one_of(st.sampled_from(["ipv4", "date", "regex", "email", "ipv6", "unknown", "time",
                                                "ip-address", "idn-hostname"]), ODD)
        elif k in ("id", "$id", "$schema"):
            pass     # would change resolution scope / class; kept out of the reference-free generators
        else:
            out[k] = st.one_of(V.inst, ODD)
    if d == 3:
        out["required"] = st.one_of(st.booleans(), ODD)
    return out


@functools.lru_cache(maxsize=None)
def liberal(d, max_leaves=6):
    return root_schemas(d, max_leaves, liberal_keyword_strategies)
