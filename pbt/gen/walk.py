"""Where subschemas sit inside a schema, per draft (the drafts' own grammar)."""

SINGLE = {
    3: ("additionalItems", "additionalProperties"),
    4: ("additionalItems", "additionalProperties", "not"),
    6: ("additionalItems", "additionalProperties", "not", "contains", "propertyNames"),
    7: ("additionalItems", "additionalProperties", "not", "contains", "propertyNames", "if", "then", "else"),
}
ARRAYS = {3: (), 4: ("allOf", "anyOf", "oneOf"), 6: ("allOf", "anyOf", "oneOf"), 7: ("allOf", "anyOf", "oneOf")}
MAPS = ("properties", "patternProperties", "definitions")


def is_schema(d, v):
    return isinstance(v, dict) or (d >= 6 and isinstance(v, bool))


def children(d, s):
    """Yield (path-tokens, subschema) for the direct subschema positions of schema object s."""
    if not isinstance(s, dict):
        return
    for k in SINGLE[d]:
        if k in s and is_schema(d, s[k]):
            yield (k,), s[k]
    for k in ARRAYS[d]:
        v = s.get(k)
        if isinstance(v, list):
            for i, e in enumerate(v):
                if is_schema(d, e):
                    yield (k, i), e
    for k in MAPS:
        v = s.get(k)
        if isinstance(v, dict):
            for kk, e in v.items():
                if is_schema(d, e):
                    yield (k, kk), e
    v = s.get("items")
    if isinstance(v, list):
        for i, e in enumerate(v):
            if is_schema(d, e):
                yield ("items", i), e
    elif "items" in s and is_schema(d, v):
        yield ("items",), v
    v = s.get("dependencies")
    if isinstance(v, dict):
        for kk, e in v.items():
            if is_schema(d, e):
                yield ("dependencies", kk), e
    if d == 3:
        v = s.get("extends")
        if isinstance(v, dict):
            yield ("extends",), v
        elif isinstance(v, list):
            for i, e in enumerate(v):
                if isinstance(e, dict):
                    yield ("extends", i), e
        for k in ("type", "disallow"):
            v = s.get(k)
            if isinstance(v, list):
                for i, e in enumerate(v):
                    if isinstance(e, dict):
                        yield (k, i), e
            elif isinstance(v, dict):
                yield (k,), v


def walk(d, s, path=()):
    """All (path, subschema) positions, root included.  Does not descend into reference objects' siblings
    specially: a reference object is reported like any other position."""
    yield path, s
    if isinstance(s, dict):
        for p, c in children(d, s):
            for r in walk(d, c, path + p):
                yield r


def has_ref(d, s):
    return any(isinstance(sub, dict) and "$ref" in sub for _, sub in walk(d, s))


def get(s, path):
    for p in path:
        s = s[p]
    return s
