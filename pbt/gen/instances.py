"""G-INST: instances that engage a given schema (schema-directed), mixed with
undirected values so every keyword's type gate still meets every JSON type."""
import math
import re

from hypothesis import strategies as st

from . import values as V

PROBE_KEYS = ["a", "b", "ab", "ba", "aa", "abc", "", "bb", "c", "0", "cab", "xa", "\U0001F600"]


WITNESSES = ["", "a", "b", "ab", "ba", "abc", "aab", "bb", "c", "ac", "abab", "axb", "a.b", ".", "$", "a$", "$a", "15$", "^",
             "^a", "0", "12", "a1", "1a", " ", "a b", "\\Z", "a\\Z", "a\n", "\na", "A", "AB", "\U0001F600", "\u00e9", "a\u00e9", "\u0661",
             "aa", "aaa", "cab", "b\n"]


def pattern_witnesses(pattern, n=3):
    """Up to n strings that the pattern finds and up to n it does not, from a fixed list that contains the
    characters the pattern pool is about (anchors, escapes, digits, blanks, line ends, non-ASCII)."""
    try:
        rx = re.compile(pattern)
    except re.error:
        return []
    yes = [w for w in WITNESSES if rx.search(w)][:n]
    no = [w for w in WITNESSES if not rx.search(w)][:n]
    # the longest / last ones too: special characters sit at the end of the list
    yes += [w for w in reversed(WITNESSES) if rx.search(w)][:n]
    no += [w for w in reversed(WITNESSES) if not rx.search(w)][:1]
    return _uniq_strs(yes + no)


def _uniq_strs(xs):
    out = []
    for x in xs:
        if x not in out:
            out.append(x)
    return out


def _matching_keys(pattern):
    out = []
    try:
        rx = re.compile(pattern)
    except re.error:
        return out
    for cand in PROBE_KEYS:
        m = rx.search(cand)
        if m:
            out.append(cand)
            if len(out) >= 3:
                break
    return out


def hints(s, h=None, depth=0):
    if h is None:
        h = {"keys": [], "nums": [], "lens": [], "vals": [], "types": []}
    if not isinstance(s, dict) or depth > 4:
        return h
    for k, v in s.items():
        if k in ("properties", "patternProperties", "dependencies") and isinstance(v, dict):
            for kk, vv in v.items():
                if k != "patternProperties":
                    h["keys"].append(kk)
                else:
                    h["keys"].extend(_matching_keys(kk))
                if isinstance(vv, list):
                    h["keys"].extend(x for x in vv if isinstance(x, str))
                elif isinstance(vv, str):
                    h["keys"].append(vv)
                elif depth == 0 and k == "dependencies":
                    hints(vv, h, depth + 1)
        elif k == "required" and isinstance(v, list):
            h["keys"].extend(x for x in v if isinstance(x, str))
        elif k in ("minimum", "maximum", "exclusiveMinimum", "exclusiveMaximum", "multipleOf", "divisibleBy"):
            if isinstance(v, (int, float)) and not isinstance(v, bool):
                h["nums"].append(v)
        elif k in ("minLength", "maxLength", "minItems", "maxItems", "minProperties", "maxProperties"):
            if isinstance(v, int) and not isinstance(v, bool) and 0 <= v < 8:
                h["lens"].append(v)
        elif k == "enum" and isinstance(v, list):
            h["vals"].extend(v)
        elif k == "const":
            h["vals"].append(v)
        elif k in ("type", "disallow"):
            for t in (v if isinstance(v, list) else [v]):
                if isinstance(t, str):
                    h["types"].append(t)
                elif isinstance(t, dict):
                    hints(t, h, depth + 1)
        elif k in ("allOf", "anyOf", "oneOf", "extends") and isinstance(v, list):
            for e in v:
                hints(e, h, depth + 1)
        elif k in ("not", "if", "then", "else", "extends", "propertyNames") and isinstance(v, dict):
            hints(v, h, depth + 1)
    return h


def _uniq(seq):
    out = []
    seen = set()
    for x in seq:
        r = repr(x)
        if r not in seen:
            seen.add(r)
            out.append(x)
    return out


def _sub_for_key(s, k):
    props = s.get("properties")
    if isinstance(props, dict) and k in props:
        return props[k]
    pats = s.get("patternProperties")
    if isinstance(pats, dict):
        for p, ps in pats.items():
            try:
                if re.search(p, k):
                    return ps
            except re.error:
                pass
    ap = s.get("additionalProperties")
    if isinstance(ap, dict):
        return ap
    for kw in ("allOf", "anyOf", "oneOf", "extends"):
        v = s.get(kw)
        if isinstance(v, list):
            for e in v:
                if isinstance(e, dict):
                    r = _sub_for_key(e, k)
                    if r is not None:
                        return r
    return None


@st.composite
def instance_for(draw, s, depth=0, fallback=None):
    fb = V.inst if fallback is None else fallback
    if not isinstance(s, dict) or depth > 3:
        return draw(fb)
    h = hints(s)
    mode = draw(st.integers(0, 11))
    if mode == 0 or not any(h.values()) and not s:
        return draw(fb)
    if mode == 1 and h["vals"]:
        v = draw(st.sampled_from(_uniq(h["vals"])))
        return draw(perturb(v)) if draw(st.booleans()) else _fresh(v)
    kinds = []
    objk = ("properties", "required", "additionalProperties", "patternProperties", "dependencies",
            "minProperties", "maxProperties", "propertyNames")
    arrk = ("items", "additionalItems", "minItems", "maxItems", "uniqueItems", "contains")
    if h["keys"] or any(k in s for k in objk):
        kinds += ["object"] * 4
    if any(k in s for k in arrk):
        kinds += ["array"] * 4
    if h["nums"]:
        kinds += ["number"] * 3
    if any(k in s for k in ("minLength", "maxLength", "pattern")):
        kinds += ["string"] * 3
    for t in h["types"]:
        if t in ("object", "array", "number", "string"):
            kinds.append(t)
        elif t == "integer":
            kinds.append("number")
    for kw in ("allOf", "anyOf", "oneOf", "extends", "not", "if", "then", "else"):
        v = s.get(kw)
        for e in (v if isinstance(v, list) else [v]):
            if isinstance(e, dict) and e and draw(st.integers(0, 3)) == 0:
                return draw(instance_for(e, depth + 1, fb))
    kinds.append("any")
    kind = draw(st.sampled_from(kinds))
    if kind == "object":
        pool = _uniq(h["keys"] + ["a", "b", "ab", "zz"])
        ks = draw(st.lists(st.sampled_from(pool), max_size=4, unique=True))
        out = {}
        for k in ks:
            sub = _sub_for_key(s, k)
            out[k] = draw(instance_for(sub, depth + 1, fb)) if isinstance(sub, dict) else draw(fb)
        return out
    if kind == "array":
        lens = sorted(set([0, 1, 2, 3]) | set(l for l in h["lens"] if l < 5) | set(l + 1 for l in h["lens"] if l < 4))
        n = draw(st.sampled_from(lens))
        it = s.get("items")
        out = []
        for i in range(n):
            if isinstance(it, list) and i < len(it):
                sub = it[i]
            elif isinstance(it, dict):
                sub = it
            elif isinstance(it, list):
                sub = s.get("additionalItems")
            else:
                sub = s.get("contains")
            out.append(draw(instance_for(sub, depth + 1, fb)) if isinstance(sub, dict) else draw(fb))
        if out and draw(st.integers(0, 3)) == 0:
            j = draw(st.integers(0, len(out) - 1))
            out.append(draw(perturb(out[j])) if draw(st.booleans()) else _fresh(out[j]))
        return out
    if kind == "number":
        pool = _uniq(h["nums"]) or [0, 1, 2]
        base = draw(st.sampled_from(pool))
        if draw(st.integers(0, 3)) == 0 and len(pool) > 1:
            other = draw(st.sampled_from(pool))
            try:
                return base * draw(st.integers(-3, 5)) + other if abs(base) < 1e150 and abs(other) < 1e150 else base
            except OverflowError:
                return base
        if draw(st.integers(0, 2)) == 0:
            try:
                r = base * draw(st.integers(-3, 6))
                if isinstance(r, int) or math.isfinite(r):
                    return r
            except OverflowError:
                pass
        return draw(V.near(base))
    if kind == "string":
        lens = sorted(set([0, 1, 2, 3]) | set(l for l in h["lens"] if l < 6) | set(l + 1 for l in h["lens"] if l < 5))
        n = draw(st.sampled_from(lens))
        return "".join(draw(st.lists(st.sampled_from(["a", "b", "c", "\U0001F600"]), min_size=n, max_size=n)))
    return draw(fb)


def _fresh(v):
    import copy
    return copy.deepcopy(v)


@st.composite
def perturb(draw, v):
    """A value equal to v as JSON, or minimally different from it."""
    v = _fresh(v)
    k = draw(st.integers(0, 5))
    if isinstance(v, bool):
        return int(v) if k < 3 else v
    if isinstance(v, int):
        if v in (0, 1) and k == 0:
            return bool(v)
        if k == 1 and abs(v) < 2 ** 53:
            return float(v)
        if k == 2:
            return v + 1
        return v
    if isinstance(v, float):
        if k == 0 and v == int(v) and abs(v) < 1e300:
            return int(v)
        return v
    if isinstance(v, list) and v:
        i = draw(st.integers(0, len(v) - 1))
        if k < 3:
            v[i] = draw(perturb(v[i]))
        elif k == 3 and len(v) > 1:
            v[0], v[-1] = v[-1], v[0]
        elif k == 4:
            v.append(_fresh(v[i]))
        return v
    if isinstance(v, dict) and v:
        key = draw(st.sampled_from(sorted(v)))
        if k < 3:
            v[key] = draw(perturb(v[key]))
        elif k == 3:
            return dict((kk, v[kk]) for kk in reversed(list(v)))
        elif k == 4:
            del v[key]
        return v
    return v


@st.composite
def instances_for(draw, s, n=3, fallback=None):
    """n instances for schema s: directed ones plus (sometimes) an undirected one."""
    fb = V.inst if fallback is None else fallback
    out = []
    for i in range(n):
        if draw(st.integers(0, 9)) < 8:
            out.append(draw(instance_for(s, 0, fb)))
        else:
            out.append(draw(fb))
    return out


# ---- deterministic, schema-directed probe sets (no randomness: a pure function of the schema) -----

FIXED_PROBES = [None, True, False, 0, 1, 1.0, -1, 2.5, "", "a", "ab", "abc", [], [1], [1, 1], [1, "a", None, 2],
                {}, {"a": 1}, {"a": 1, "b": "x"}, {"zz": None}, [0, False], [True, 1]]


def _num_near(b):
    out = [b]
    if isinstance(b, bool):
        return []
    if isinstance(b, int):
        out += [b - 1, b + 1]
        if abs(b) < 2 ** 53:
            out.append(float(b))
        out += [2 * b, 3 * b]
    elif isinstance(b, float) and math.isfinite(b):
        out += [math.nextafter(b, math.inf), math.nextafter(b, -math.inf)]
        if b == int(b) and abs(b) < 1e300:
            out += [int(b), int(b) + 1, int(b) - 1]
        if abs(b) < 1e150:
            out += [2 * b, 3 * b]
    return out


def probes(s, limit=40, depth=0):
    """Deterministic list of instances engaging schema s (a pure function of s).  Never raises: whatever goes wrong
    while deriving instances from an odd schema (liberal schemas carry arbitrary keyword values) only costs the
    derived instances, the fixed ones are still returned."""
    try:
        return _probes(s, limit, depth)
    except RecursionError:
        raise
    except Exception:
        return list(FIXED_PROBES)


def _probes(s, limit=40, depth=0):
    if not isinstance(s, dict) or depth > 2:
        return list(FIXED_PROBES[:6 if depth else len(FIXED_PROBES)])
    h = hints(s)
    out = []
    for v in h["vals"][:6]:
        out.append(_fresh(v))
        if isinstance(v, bool):
            out.append(int(v))
        elif isinstance(v, int) and abs(v) < 2 ** 53:
            out.append(float(v))
            if v in (0, 1):
                out.append(bool(v))
        elif isinstance(v, list):
            out.append([_fresh(e) for e in reversed(v)])
            out.append(_fresh(v) + [None])
        elif isinstance(v, dict):
            out.append(dict((k, _fresh(v[k])) for k in reversed(list(v))))
    for b in _uniq(h["nums"])[:4]:
        out.extend(_num_near(b))
    extremes = []
    if h["nums"] or any(t in ("integer", "number") for t in h["types"]):
        # numbers no float can hold, the largest and smallest floats, the first integer floats cannot tell apart;
        # and integral / fractional floats side by side in one array and one object (on top of the budget, see below)
        extremes = [10 ** 400, -(10 ** 400), 2 ** 1024, 1e308, 5e-324, 2 ** 53 + 1, float(2 ** 53), -0.0,
                    [1.0, 1.5, 2, 2.0], [1.5, 1.0], {"a": 1.0, "b": 1.5, "c": 2.5, "k": 3.0}]
    for kw in ("multipleOf", "divisibleBy"):
        dv = s.get(kw)
        if isinstance(dv, int) and not isinstance(dv, bool) and dv > 0:
            out += [2 ** 53 + 1, (2 ** 53 + 1) * dv, (2 ** 53 + 1) * dv + 1, 10 ** 20 + 1]
            try:
                out += [float(4 * dv), 4.5 * dv]
            except OverflowError:       # a divisor no float can hold
                pass
    nums = _uniq(h["nums"])
    if len(nums) >= 2:
        a, b = nums[0], nums[1]
        try:
            out.append(a * b)
            out.append(a + b)
        except OverflowError:
            pass
    lens = sorted(set(l + dlt for l in h["lens"] for dlt in (-1, 0, 1) if 0 <= l + dlt < 7))
    if any(k in s for k in ("minLength", "maxLength", "pattern")):
        for l in lens or [0, 1, 2]:
            out.append("a" * l)
            out.append(("ab" * l)[:l])
        out += ["b", "ba", "cab", "\U0001F600", "aa"]
        if isinstance(s.get("pattern"), str):
            out += pattern_witnesses(s["pattern"])
    # objects
    keys = _uniq(h["keys"])[:6]
    objk = ("properties", "required", "additionalProperties", "patternProperties", "dependencies",
            "minProperties", "maxProperties", "propertyNames")
    if keys or any(k in s for k in objk):
        keys = keys or ["a", "b"]
        cand = {}
        for k in keys + ["zz"]:
            sub = _sub_for_key(s, k)
            cand[k] = probes(sub, 4, depth + 1)[:4] if isinstance(sub, dict) and sub else [1, "a", None]
        full = dict((k, _fresh(cand[k][0])) for k in keys)
        out.append(full)
        for k in keys:
            out.append({k: _fresh(cand[k][0])})
            for v in cand[k][1:]:
                o = _fresh(full)
                o[k] = _fresh(v)
                out.append(o)
            o = _fresh(full)
            del o[k]
            out.append(o)
        o = _fresh(full)
        o["zz"] = _fresh(cand["zz"][0])
        out.append(o)
        o = _fresh(full)
        o["zz"] = _fresh(cand["zz"][-1])
        out.append(o)
        for n in lens:
            out.append(dict((k, 1) for k in (keys + ["y1", "y2", "y3", "y4", "y5", "y6"])[:n]))
    # arrays
    arrk = ("items", "additionalItems", "minItems", "maxItems", "uniqueItems", "contains")
    if any(k in s for k in arrk):
        it = s.get("items")
        n_it = len(it) if isinstance(it, list) else 0

        def sub_at(i):
            if isinstance(it, list):
                return it[i] if i < len(it) else s.get("additionalItems")
            if isinstance(it, dict):
                return it
            return s.get("contains")
        for n in sorted(set(lens + [0, 1, 2, n_it, n_it + 1, n_it + 2])):
            if n > 6:
                continue
            cands = []
            for i in range(n):
                sub = sub_at(i)
                cands.append(probes(sub, 3, depth + 1)[:3] if isinstance(sub, dict) and sub else [1, "a", None])
            base = [_fresh(c[0]) for c in cands]
            out.append(base)
            for i in range(n):
                for v in cands[i][1:]:
                    a = _fresh(base)
                    a[i] = _fresh(v)
                    out.append(a)
            if n >= 1:
                out.append([_fresh(cands[i][min(i, len(cands[i]) - 1)]) for i in range(n)])
        out.append([1, 1.0])
        out.append([[1], [True]])
        out.append([{"a": 1}, {"a": 1}])
        # equal for Python (==, hash) but different JSON values, in both orders
        out += [[0, False], [False, 0], [1, True], [True, 1], [1.0, 1, True], ["a", "a", "b"], [1.0, 1.5], [1.5, 1.0],
                [None, 0], ["", None]]
    for kw in ("allOf", "anyOf", "oneOf", "extends", "not", "if", "then", "else", "type", "disallow"):
        v = s.get(kw)
        for e in (v if isinstance(v, list) else [v]):
            if isinstance(e, dict) and e:
                out.extend(probes(e, 6, depth + 1)[:6])
    dep = s.get("dependencies")
    if isinstance(dep, dict):
        for k, e in dep.items():
            if isinstance(e, dict) and e:
                for p in probes(e, 4, depth + 1)[:4]:
                    if isinstance(p, dict):
                        q = _fresh(p)
                        q.setdefault(k, 1)
                        out.append(q)
    # sizes beyond anything else here: long arrays (with and without a duplicate far apart), many members, long
    # strings -- for code that changes its method above some size
    wide_keys = [k for k in (list((s.get("properties") or {})) if isinstance(s.get("properties"), dict) else []) if k.startswith("w")]
    req = [k for k in (s.get("required") if isinstance(s.get("required"), list) else []) if isinstance(k, str)]
    big = []
    if any(k in s for k in arrk) or "array" in h["types"] or isinstance(s.get("enum"), list) and len(s["enum"]) > 8:
        big += [list(range(40)), list(range(20)) + [0.0] + list(range(20, 30)), [[i] for i in range(12)] + [[3]], ["s%d" % i for i in range(33)],
                [None] * 130, ["t%d" % i if i % 2 else i + 0.5 for i in range(130)]]       # more than a hundred errors at once
    if any(k in s for k in objk) or "object" in h["types"] or wide_keys or len(req) > 3:
        names = _uniq_strs(req + wide_keys + ["w%d" % i for i in range(24)])
        big += [dict((k, i) for i, k in enumerate(names)), dict((k, "s") for k in names[:len(names) // 2]),
                dict((k, i) for i, k in enumerate(names[1:]))]
    if any(k in s for k in ("minLength", "maxLength", "pattern", "format")) or "string" in h["types"]:
        big += ["a" * 300, "ab" * 33 + "\U0001F600"]
    if isinstance(s.get("enum"), list) and len(s["enum"]) > 8:
        big += [_fresh(e) for e in s["enum"][-3:]] + [19.0, "s7", False, 1]
    out = [x for x in _uniq_typed(out) if _finite(x)]
    fixed = [f for f in FIXED_PROBES]
    res = out[:limit] + fixed[:max(6, limit - len(out))]
    # the large ones come on top of the budget: when they took places in it, small probes that used to expose
    # seeded changes (an array holding 1.0 and 1.5) were pushed out
    return _uniq_typed(res)[:limit + 6] + _uniq_typed(extremes + big)


def _uniq_typed(seq):
    out = []
    seen = set()
    for x in seq:
        r = repr(x)
        if r not in seen:
            seen.add(r)
            out.append(x)
    return out


def _finite(v):
    if isinstance(v, float):
        return math.isfinite(v)
    if isinstance(v, int) and not isinstance(v, bool):
        return v.bit_length() < 13000          # stays below CPython's 4300-digit int <-> str limit
    if isinstance(v, list):
        return all(_finite(e) for e in v)
    if isinstance(v, dict):
        return all(_finite(e) for e in v.values())
    return True
