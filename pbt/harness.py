"""Runner shared by all property checks: tiers, seeds, sharding over worker
processes, failure bucketing, shrinking, replay files, known findings, evidence,
exit codes (0 held / 1 VIOLATION / 2 harness error or inconclusive)."""
import collections
import hashlib
import importlib
import json
import os
import signal
import sys
import time
import traceback

VERIF = os.path.dirname(os.path.dirname(os.path.abspath(__file__)))
REPO = os.path.abspath(os.environ.get("VERIF_REPO", "/repo"))
OUT = os.path.abspath(os.environ.get("VERIF_OUT", VERIF))     # where evidence/ and replays/ are written

# CPython's default limit on int <-> str conversion (4300 digits) is left in force, as it is for any user of the
# library: generators keep integers below ~3900 digits (json.loads could not deliver longer ones either)
sys.setrecursionlimit(3000)


class HarnessError(Exception):
    pass


def bind_repo():
    """Put the tree under test first on sys.path, check that jsonschema really
    comes from there, and cut the network off from the outside."""
    if sys.path[0] != REPO:
        sys.path.insert(0, REPO)
    import jsonschema
    where = os.path.abspath(jsonschema.__file__)
    if not where.startswith(REPO + os.sep):
        raise HarnessError("jsonschema imported from %s, not from %s" % (where, REPO))
    from . import netstub
    netstub.install()
    import warnings
    warnings.simplefilter("ignore")
    return jsonschema


def canon(case):
    return json.dumps(case, ensure_ascii=True, sort_keys=False, separators=(",", ":"))


def digest(case):
    return int.from_bytes(hashlib.sha1(canon(case).encode()).digest()[:8], "big")


class Result(object):
    """What checking one generated case produced."""
    __slots__ = ("failures", "labels", "nontrivial", "excluded", "evals", "nt_key")

    def __init__(self):
        self.failures = []     # list of (bucket tuple-of-str, detail str)
        self.labels = []       # class labels for the distribution table
        self.nontrivial = False
        self.excluded = None   # reason this case was not judged
        self.evals = 1         # elementary evaluations this case stands for
        self.nt_key = None     # value hashed for distinctness (default: the case)

    def fail(self, bucket, detail=""):
        self.failures.append((tuple(str(b) for b in bucket), str(detail)[:2000]))


class Prop(object):
    """Base class of a property check.  Subclasses live in pbt/props/cNN.py as `PROP`."""
    ID = None
    RULE = ""
    ASSUMPTIONS = []
    QUICK = 200           # Hypothesis examples per worker, quick tier
    THOROUGH = 2000
    CHUNK = 4000          # examples per Hypothesis run (bounds its memory)
    WORKERS = 16
    GATES = {}            # label -> minimal count (quick tier); scaled x4 in thorough
    MIN_NONTRIVIAL = 20
    WATCHDOG_IS_VIOLATION = False   # C03 / C13 claim termination: a case that runs into the watchdog is reported

    def selftest(self):
        pass

    def strategy(self, tier):
        raise NotImplementedError

    def check(self, case):
        raise NotImplementedError

    def extra_stages(self, tier, seed, acc):
        """Optional enumeration / fuzz stages; they add to the accumulator."""

    def setup_worker(self):
        pass

    def gate(self, acc, tier):
        """Extra vacuity gates: list of complaints (empty = fine)."""
        return []


# ---------------------------------------------------------------------------------------------
# accumulator

class Acc(object):
    def __init__(self):
        self.cases = 0
        self.evals = 0
        self.nt = set()
        self.labels = collections.Counter()
        self.excluded = collections.Counter()
        self.samples = []
        self.failures = {}       # bucket -> list of (size, case, detail)
        self.harness_errors = []
        self.extra = {}
        self.exhaustive = False
        self.known = collections.Counter()

    def add(self, case, res, keep_sample=True):
        self.cases += 1
        self.evals += res.evals
        for l in res.labels:
            self.labels[l] += 1
        if res.excluded:
            self.excluded[res.excluded] += 1
        if res.nontrivial and not res.failures:
            if isinstance(case, dict) and case.get("draft") in (3, 4, 6, 7):
                self.labels["nontrivial:draft%d" % case["draft"]] += 1     # a flavour valid in one draft only is vacuous in three
            dg = digest(case if res.nt_key is None else res.nt_key)
            if dg not in self.nt:
                self.nt.add(dg)
                n = len(self.nt)
                if keep_sample and (n <= 3 or (n & (n - 1)) == 0) and len(self.samples) < 12:
                    if len(canon(case)) < 4000:
                        self.samples.append(case)
        for bucket, detail in res.failures:
            lst = self.failures.setdefault(bucket, [])
            lst.append((len(canon(case)), case, detail))
            lst.sort(key=lambda t: t[0])
            del lst[4:]

    def merge(self, o):
        self.cases += o.cases
        self.evals += o.evals
        self.nt |= o.nt
        self.labels.update(o.labels)
        self.excluded.update(o.excluded)
        self.known.update(o.known)
        self.samples.extend(o.samples)
        for b, lst in o.failures.items():
            mine = self.failures.setdefault(b, [])
            mine.extend(lst)
            mine.sort(key=lambda t: t[0])
            del mine[6:]
        self.harness_errors.extend(o.harness_errors)
        for k, v in o.extra.items():
            if isinstance(v, (int, float)) and isinstance(self.extra.get(k, 0), (int, float)):
                self.extra[k] = self.extra.get(k, 0) + v
            elif isinstance(v, list) and isinstance(self.extra.get(k, []), list):
                self.extra[k] = (self.extra.get(k, []) + v)[:20]
            else:
                self.extra[k] = v


class _Timeout(Exception):
    pass


class _Abort(BaseException):
    """Three cases ran into the watchdog: stop this worker (the run is inconclusive, exit 2 unless a
    violation was already recorded)."""


def _alarm(signum, frame):
    raise _Timeout()


def run_case(prop, case, acc, keep_sample=True):
    """Run prop.check on one case under the watchdog; harness bugs are recorded, never raised."""
    signal.signal(signal.SIGALRM, _alarm)
    signal.alarm(int(os.environ.get("VERIF_CASE_TIMEOUT", "30")))
    hb = _HEARTBEAT.get("path") if prop.WATCHDOG_IS_VIOLATION else None
    if hb:
        # a hang inside C code (a regex match) never lets the SIGALRM handler run: the parent process watches
        # this file instead and reports the case written here if it stays unchanged for too long
        with open(hb, "w") as f:
            f.write("%f\n%s" % (time.time(), canon(case)))
    try:
        res = prop.check(case)
    except _Timeout:
        if prop.WATCHDOG_IS_VIOLATION:
            res = Result()
            res.fail(("hang",), "the case did not finish within %s s of wall-clock time" %
                     os.environ.get("VERIF_CASE_TIMEOUT", "30"))
            acc.add(case, res, keep_sample)
            acc.extra["watchdog_expiries"] = acc.extra.get("watchdog_expiries", 0) + 1
            if acc.extra["watchdog_expiries"] >= 3:
                raise _Abort()
            return res
        # a time budget that was hit says nothing about the property: the case is counted as inconclusive and kept in
        # the evidence; only when it keeps happening in one worker is the run itself declared broken
        acc.excluded["inconclusive:case-time-budget"] += 1
        acc.extra.setdefault("timed_out_cases", []).append(canon(case)[:600])
        acc.extra["watchdog_expiries"] = acc.extra.get("watchdog_expiries", 0) + 1
        if acc.extra["watchdog_expiries"] >= 3:
            acc.harness_errors.append(("watchdog (third expiry in this worker)", canon(case)[:3000]))
            raise _Abort()
        return None
    except Exception:
        acc.harness_errors.append((traceback.format_exc()[-3000:], canon(case)[:3000]))
        return None
    finally:
        signal.alarm(0)
    if res.failures:
        # failures explained by a listed open finding are counted apart at once, so that they can never
        # crowd a different violation out of the (bounded) per-bucket lists
        known = _KNOWN.get("k")
        if known is None:
            known = _KNOWN["k"] = load_known()
        keep = []
        for b, dtl in res.failures:
            try:
                kf = attribute(prop, known, case, b, dtl)
            except Exception:
                kf = None
            if kf:
                acc.known[kf] += 1
            else:
                keep.append((b, dtl))
        res.failures = keep
    acc.add(case, res, keep_sample)
    return res


_KNOWN = {}
_HEARTBEAT = {}
HANG_LIMIT = int(os.environ.get("VERIF_HANG_LIMIT", "75"))      # seconds without progress on one case


def fuzz_stage(prop, acc, module, seed, runs, jobs=8, **kw):
    """Thorough tier: an atheris / libFuzzer campaign whose target uses prop.check as its oracle.  Failing inputs
    come back as replay cases and are re-checked in this process (so they are bucketed, attributed and shrunk like
    any other failure).  If atheris cannot be installed the stage is reported as skipped."""
    from .fuzz import common
    scale = float(os.environ.get("VERIF_SCALE", "1"))
    st = common.run(module, seed, int(runs * scale), jobs, **kw)
    for case in st.pop("replays", []):
        run_case(prop, case["case"], acc, keep_sample=False)
    acc.evals += st.get("executions", 0)
    acc.extra["fuzz"] = st
    if st.get("job_errors"):
        acc.harness_errors.append(("fuzz job failed: %r" % (st["job_errors"][:2],), ""))


def load_prop(pid):
    mod = importlib.import_module("pbt.props." + pid.lower())
    return mod.PROP


def _worker(args):
    pid, tier, seed, w, n = args
    bind_repo()
    hbdir = os.environ.get("VERIF_HEARTBEAT_DIR")
    if hbdir:
        _HEARTBEAT["path"] = os.path.join(hbdir, "w%d" % w)
    try:
        import resource
        lim = int(os.environ.get("VERIF_MEM_GB", "6")) * 2 ** 30
        resource.setrlimit(resource.RLIMIT_AS, (lim, lim))
    except Exception:
        pass
    import hypothesis
    from hypothesis import HealthCheck, Phase, given, settings
    prop = load_prop(pid)
    prop.setup_worker()
    acc = Acc()
    strat = prop.strategy(tier)
    done = 0
    chunk = 0
    while done < n:
        m = min(prop.CHUNK, n - done)
        sett = settings(max_examples=m, database=None, deadline=None, derandomize=False,
                        report_multiple_bugs=False, phases=[Phase.generate],
                        suppress_health_check=list(HealthCheck), print_blob=False)

        @hypothesis.seed(seed * 100003 + w * 101 + chunk)
        @sett
        @given(strat)
        def test(case):
            run_case(prop, case, acc)

        try:
            test()
        except _Abort:
            if not prop.WATCHDOG_IS_VIOLATION:
                acc.harness_errors.append(("worker stopped after three watchdog expiries", ""))
            break
        except Exception:
            acc.harness_errors.append(("hypothesis run failed: " + traceback.format_exc()[-3000:], ""))
            break
        done += m
        chunk += 1
    return acc


# ---------------------------------------------------------------------------------------------
# known findings

def load_known():
    p = os.path.join(VERIF, "known_findings.json")
    if not os.path.exists(p):
        return {"open": [], "fixed": []}
    with open(p) as f:
        return json.load(f)


def _fn(dotted):
    modname, fn = dotted.rsplit(".", 1)
    return getattr(importlib.import_module(modname), fn)


def attribute(prop, known, case, bucket, detail):
    """Return the id of the open known finding that explains this failure, or None.  An entry either names a
    custom `recogniser(prop, case, bucket, detail)` or a `neutraliser(case) -> (case', applied)`: the failure
    is attributed only if the case carries the finding's mark and the check passes on the neutralised case.
    When no single finding explains it, the neutralisers of all marks present are applied together."""
    entries = [e for e in known.get("open", []) if e["property"] == prop.ID]
    marked = []
    for ent in entries:
        try:
            if "recogniser" in ent:
                if _fn(ent["recogniser"])(prop, case, bucket, detail):
                    return ent["id"]
            else:
                neutral, applied = _fn(ent["neutraliser"])(case)
                if applied:
                    marked.append(ent)
                    if not prop.check(neutral).failures:
                        return ent["id"]
        except Exception:
            continue
    if len(marked) > 1:
        try:
            neutral = case
            for ent in marked:
                neutral, _ = _fn(ent["neutraliser"])(neutral)
            if not prop.check(neutral).failures:
                return "+".join(e["id"] for e in marked)
        except Exception:
            pass
    return None


# ---------------------------------------------------------------------------------------------

def _stale_heartbeat(hbdir):
    now = time.time()
    for name in os.listdir(hbdir):
        try:
            with open(os.path.join(hbdir, name)) as f:
                ts, _, body = f.read().partition("\n")
            if body and now - float(ts) > HANG_LIMIT:
                return json.loads(body)
        except (OSError, ValueError):
            continue
    return None


def _check_in_child(prop_id, case, q):
    bind_repo()
    prop = load_prop(prop_id)
    res = prop.check(case)
    q.put([(list(b), d) for b, d in res.failures])


def check_with_hard_timeout(prop, case, seconds):
    """Run prop.check(case) in a child process; returns the failures, or [(("hang",), ...)] if it does not finish."""
    import multiprocessing as mp
    ctx = mp.get_context("spawn")
    q = ctx.Queue()
    pr = ctx.Process(target=_check_in_child, args=(prop.ID, case, q))
    pr.start()
    pr.join(seconds)
    if pr.is_alive():
        pr.terminate()
        pr.join()
        return [(("hang",), "did not finish within %d s" % seconds)]
    try:
        return [(tuple(b), d) for b, d in q.get(timeout=5)]
    except Exception:
        return []


def fails_with(prop, case, bucket):
    if prop.WATCHDOG_IS_VIOLATION and bucket == ("hang",):
        return any(b == ("hang",) for b, _ in check_with_hard_timeout(prop, case, 20))
    signal.signal(signal.SIGALRM, _alarm)
    signal.alarm(30)
    try:
        res = prop.check(case)
    except _Timeout:
        return prop.WATCHDOG_IS_VIOLATION and bucket == ("hang",)
    except BaseException:
        return False
    finally:
        signal.alarm(0)
    return any(b == bucket for b, _ in res.failures)


def write_replay(prop, tier, seed, bucket, case, detail):
    d = os.path.join(OUT, "replays", prop.ID)
    os.makedirs(d, exist_ok=True)
    body = {"property": prop.ID, "tier": tier, "seed": seed, "bucket": list(bucket),
            "case": case, "observed": detail}
    name = hashlib.sha1(canon([list(bucket), case]).encode()).hexdigest()[:16] + ".json"
    path = os.path.join(d, name)
    with open(path, "w") as f:
        json.dump(body, f, indent=1)
    return os.path.relpath(path, VERIF) if OUT == VERIF else path


def replay_corpus(prop, acc):
    d = os.path.join(VERIF, "corpus", prop.ID)
    n = 0
    hits = []
    if os.path.isdir(d):
        for name in sorted(os.listdir(d)):
            if not name.endswith(".json"):
                continue
            with open(os.path.join(d, name)) as f:
                body = json.load(f)
            sub = Acc()
            if prop.WATCHDOG_IS_VIOLATION:
                for b, dtl in check_with_hard_timeout(prop, body["case"], HANG_LIMIT):
                    sub.failures.setdefault(b, []).append((0, body["case"], dtl))
            else:
                run_case(prop, body["case"], sub, keep_sample=False)
            n += 1
            acc.harness_errors.extend(sub.harness_errors)
            for b, lst in sub.failures.items():
                hits.append((os.path.join("corpus", prop.ID, name), b, lst[0][1], lst[0][2]))
    acc.extra["corpus_replayed"] = n
    return hits


def main_check(pid, tier, seed, replay=None):
    t0 = time.time()
    os.chdir(VERIF)
    bind_repo()
    prop = load_prop(pid)
    known = load_known()

    if replay:
        with open(replay) as f:
            body = json.load(f)
        acc = Acc()
        if prop.WATCHDOG_IS_VIOLATION:
            for b, dtl in check_with_hard_timeout(prop, body["case"], HANG_LIMIT):
                acc.failures.setdefault(b, []).append((0, body["case"], dtl))
        else:
            run_case(prop, body["case"], acc)
        if acc.harness_errors:
            print("HARNESS-ERROR", acc.harness_errors[0][0])
            return 2
        bad = 0
        for b, lst in acc.failures.items():
            kf = attribute(prop, known, lst[0][1], b, lst[0][2])
            if kf:
                print("KNOWN-FINDING: property=%s %s" % (prop.ID, kf))
                continue
            bad += 1
            print("failure bucket=%s detail=%s" % (list(b), lst[0][2][:500]))
        if bad:
            print("VIOLATION property=%s replay=%s" % (prop.ID, replay))
            return 1
        print("replay passes: property=%s" % prop.ID)
        return 0

    try:
        prop.selftest()
    except Exception:
        print("HARNESS-ERROR oracle self-test failed:\n" + traceback.format_exc())
        return 2

    acc = Acc()
    corpus_hits = replay_corpus(prop, acc)

    scale = float(os.environ.get("VERIF_SCALE", "1"))
    n = int((prop.QUICK if tier == "quick" else prop.THOROUGH) * scale)
    W = int(os.environ.get("VERIF_WORKERS", str(prop.WORKERS)))
    if n > 0:
        import multiprocessing as mp
        ctx = mp.get_context("spawn")
        hbdir = None
        if prop.WATCHDOG_IS_VIOLATION:
            import tempfile
            hbdir = tempfile.mkdtemp(prefix="verif_hb_")
            os.environ["VERIF_HEARTBEAT_DIR"] = hbdir
        pool = ctx.Pool(W)
        try:
            pending = [pool.apply_async(_worker, ((pid, tier, seed, w, n),)) for w in range(W)]
            hung = None
            while pending and hung is None:
                for r in list(pending):
                    if r.ready():
                        acc.merge(r.get())
                        pending.remove(r)
                if pending:
                    time.sleep(0.5)
                    if hbdir:
                        hung = _stale_heartbeat(hbdir)
            if hung is not None:
                pool.terminate()
                res = Result()
                res.fail(("hang",), "no progress on this case for more than %d s (the watchdog signal could not "
                         "interrupt it: the time is spent inside C code)" % HANG_LIMIT)
                acc.add(hung, res, False)
                acc.extra["workers_lost_to_hang"] = len(pending)
        finally:
            pool.terminate()
            pool.join()
            if hbdir:
                import shutil
                shutil.rmtree(hbdir, ignore_errors=True)
                os.environ.pop("VERIF_HEARTBEAT_DIR", None)
    try:
        prop.extra_stages(tier, seed, acc)
    except Exception:
        acc.harness_errors.append(("extra stage failed: " + traceback.format_exc()[-3000:], ""))

    # ---- triage failures ------------------------------------------------------------------
    violations = []
    known_hits = collections.Counter(acc.known)
    for path, b, case, detail in corpus_hits:
        kf = attribute(prop, known, case, b, detail)
        if kf:
            known_hits[kf] += 1
        else:
            violations.append((b, case, detail, path))
    do_shrink = os.environ.get("VERIF_NO_SHRINK") != "1"
    for b, lst in sorted(acc.failures.items()):
        unexplained = []
        for size, case, detail in lst:
            kf = attribute(prop, known, case, b, detail)
            if kf:
                known_hits[kf] += 1
            else:
                unexplained.append((case, detail))
        if not unexplained:
            continue
        case, detail = unexplained[0]
        if do_shrink and hasattr(prop, "focus"):
            try:
                for cand in prop.focus(case, b):
                    if fails_with(prop, cand, b):
                        case = cand
                        break
            except Exception:
                pass
        if do_shrink:
            from . import jsonmin
            small = jsonmin.minimise(case, lambda c: fails_with(prop, c, b),
                                     budget=int(os.environ.get("VERIF_SHRINK_BUDGET", "1500")),
                                     seconds=40)
            if small is not case:
                sub = Acc()
                run_case(prop, small, sub, keep_sample=False)
                for bb, l2 in sub.failures.items():
                    if bb == b:
                        case, detail = small, l2[0][2]
            kf = attribute(prop, known, case, b, detail)
            if kf:       # the minimal form is a listed finding after all
                known_hits[kf] += 1
                continue
        violations.append((b, case, detail, None))

    single = collections.Counter()
    for kf, cnt in known_hits.items():
        for part in kf.split("+"):
            single[part] += cnt
    for kf, cnt in sorted(single.items()):
        what = [e["what"] for e in known["open"] if e["id"] == kf][0]
        print("KNOWN-FINDING: property=%s %s %s (met %d times)" % (prop.ID, kf, what, cnt))

    # ---- gates ----------------------------------------------------------------------------
    gate_fail = []
    mult = 1 if tier == "quick" else 4
    if n > 0 or acc.cases:
        for label, need in prop.GATES.items():
            if acc.labels.get(label, 0) < need * mult * min(scale, 1.0):
                gate_fail.append("%s=%d<%d" % (label, acc.labels.get(label, 0), need * mult))
        per_draft = [acc.labels.get("nontrivial:draft%d" % d, 0) for d in (3, 4, 6, 7)]
        if sum(per_draft) >= 200 and min(per_draft) * 25 < sum(per_draft) and not getattr(prop, "ONE_DRAFT_OK", False):
            gate_fail.append("non-trivial cases per draft %r: one draft has less than 4%% of them" % (per_draft,))
        gate_fail.extend(prop.gate(acc, tier))
        if len(acc.nt) < prop.MIN_NONTRIVIAL:
            gate_fail.append("distinct_nontrivial=%d<%d" % (len(acc.nt), prop.MIN_NONTRIVIAL))

    wall = time.time() - t0
    ev = {
        "property_id": prop.ID, "tier": tier, "seed": seed, "level": "exploration",
        "coverage": {
            "evaluations": acc.evals,
            "cases": acc.cases,
            "distinct_nontrivial": len(acc.nt),
            "rule": prop.RULE,
            "samples": acc.samples[:10],
            "classes": dict(sorted(acc.labels.items())),
            "excluded": dict(acc.excluded),
            "known_findings_met": dict(known_hits),
            "exhaustive": bool(acc.exhaustive),
            "workers": W, "examples_per_worker": n,
        },
        "assumptions": list(prop.ASSUMPTIONS),
        "wall_s": round(wall, 2),
        "violations": len(violations),
    }
    ev["coverage"].update(acc.extra)
    try:
        import hypothesis
        ev["coverage"]["hypothesis_version"] = hypothesis.__version__
    except Exception:
        pass
    os.makedirs(os.path.join(OUT, "evidence"), exist_ok=True)
    with open(os.path.join(OUT, "evidence", prop.ID + ".json"), "w") as f:
        json.dump(ev, f, indent=1, sort_keys=False)
        f.write("\n")

    print("%s tier=%s seed=%d cases=%d evaluations=%d distinct_nontrivial=%d wall=%.1fs" % (
        prop.ID, tier, seed, acc.cases, acc.evals, len(acc.nt), wall))
    if violations:
        for b, case, detail, path in violations:
            if path is None:
                path = write_replay(prop, tier, seed, b, case, detail)
            print("  bucket=%s detail=%s" % (list(b), detail[:600].replace("\n", " | ")))
            print("VIOLATION property=%s replay=%s" % (prop.ID, path))
        return 1
    if acc.harness_errors:
        print("HARNESS-ERROR (%d), first:\n%s\ncase: %s" % (
            len(acc.harness_errors), acc.harness_errors[0][0], acc.harness_errors[0][1][:1500]))
        return 2
    if gate_fail:
        print("HARNESS-ERROR vacuous distribution: " + ", ".join(gate_fail))
        return 2
    print("OK property=%s held on everything explored" % prop.ID)
    return 0


def cli(argv):
    import argparse
    ap = argparse.ArgumentParser()
    ap.add_argument("prop")
    ap.add_argument("--tier", default=os.environ.get("VERIF_TIER", "quick"), choices=["quick", "thorough"])
    ap.add_argument("--replay")
    a = ap.parse_args(argv)
    seed = int(os.environ.get("VERIF_SEED", "1") or "1")
    try:
        return main_check(a.prop.upper(), a.tier, seed, a.replay)
    except HarnessError as e:
        print("HARNESS-ERROR", e)
        return 2
    except Exception:
        print("HARNESS-ERROR\n" + traceback.format_exc())
        return 2
