"""O-PTR: RFC 6901 JSON Pointer evaluation, its URI-fragment encoding (RFC 3986) and inverse."""
import re


class PointerError(Exception):
    pass


_INDEX = re.compile(r"(0|[1-9][0-9]*)\Z", re.ASCII)      # \Z, not $: "1\n" is not an index
_HEX = "0123456789abcdefABCDEF"


def percent_decode(s):
    """Decode %XX sequences (UTF-8).  Raises PointerError on malformed input."""
    out = bytearray()
    i = 0
    while i < len(s):
        c = s[i]
        if c == "%":
            h = s[i + 1:i + 3]
            if len(h) != 2 or h[0] not in _HEX or h[1] not in _HEX:
                raise PointerError("bad percent escape")
            out.append(int(h, 16))
            i += 3
        else:
            out.extend(c.encode("utf-8"))
            i += 1
    try:
        return out.decode("utf-8")
    except UnicodeDecodeError:
        raise PointerError("percent escapes are not UTF-8")


def decode_fragment(frag):
    """URI fragment -> list of reference tokens."""
    p = percent_decode(frag)
    if p == "":
        return []
    if not p.startswith("/"):
        raise PointerError("pointer must start with /")
    return [unescape(t) for t in p[1:].split("/")]


def unescape(tok):
    # RFC 6901 section 4: first ~1 -> /, then ~0 -> ~
    if re.search(r"~(?![01])", tok):
        raise PointerError("bad ~ escape")
    return tok.replace("~1", "/").replace("~0", "~")


def escape(tok):
    return tok.replace("~", "~0").replace("/", "~1")


def evaluate(doc, tokens):
    for tok in tokens:
        if isinstance(doc, dict):
            if tok not in doc:
                raise PointerError("no member %r" % (tok,))
            doc = doc[tok]
        elif isinstance(doc, list):
            if not _INDEX.match(tok):
                raise PointerError("not an array index: %r" % (tok,))
            if len(tok) > 18:
                raise PointerError("index out of range")      # no in-memory array is that long
            i = int(tok)
            if i >= len(doc):
                raise PointerError("index out of range")
            doc = doc[i]
        else:
            raise PointerError("scalar has no children")
    return doc


# characters that MAY appear raw in a URI fragment (RFC 3986: pchar / "/" / "?")
_FRAG_SAFE = set("ABCDEFGHIJKLMNOPQRSTUVWXYZabcdefghijklmnopqrstuvwxyz0123456789"
                 "-._~!$&'()*+,;=:@/?")


def encode(tokens, also=()):
    """tokens -> URI fragment.  Characters outside the fragment-safe set are
    always percent-encoded; characters in `also` are encoded as well
    (optional encoding, must decode to the same pointer)."""
    ptr = "".join("/" + escape(t) for t in tokens)
    out = []
    for ch in ptr:
        if ch in _FRAG_SAFE and ch not in also:
            out.append(ch)
        else:
            out.append("".join("%%%02X" % b for b in ch.encode("utf-8")))
    return "".join(out)
