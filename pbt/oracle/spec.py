"""O-SPEC: an independent evaluator of JSON Schema drafts 3, 4, 6 and 7.

Written from the keyword definitions of the four specifications.  It imports
nothing from jsonschema.  Structure: one function per keyword returning the
list of *violations* of that keyword (empty list = keyword satisfied), so the
same code answers

  valid(ctx, schema, instance)            -> bool
  keyword_violations(ctx, S, k, x)        -> list of violation tokens of keyword k in S

Violation tokens are: missing names (required / dependencies), failing child
locations (items, properties, ...), or the single token True for keywords with
one possible violation.
"""
import re
from fractions import Fraction

from . import equality, uri as ouri, pointer as optr


class Unsupported(Exception):
    """The case is outside what the oracle can decide (harness excludes it)."""


def is_num(x):
    return isinstance(x, (int, float)) and not isinstance(x, bool)


D3_TYPES = ("any", "array", "boolean", "integer", "null", "number", "object", "string")
D4_TYPES = ("array", "boolean", "integer", "null", "number", "object", "string")


def is_type(d, x, t):
    if t == "any" and d == 3:
        return True
    if t == "null":
        return x is None
    if t == "boolean":
        return isinstance(x, bool)
    if t == "number":
        return is_num(x)
    if t == "integer":
        if isinstance(x, bool):
            return False
        if isinstance(x, int):
            return True
        # draft 6+: "any number with a zero fractional part"
        return d >= 6 and isinstance(x, float) and x == x and abs(x) != float("inf") and x == int(x)
    if t == "string":
        return isinstance(x, str)
    if t == "array":
        return isinstance(x, list)
    if t == "object":
        return isinstance(x, dict)
    raise Unsupported("unknown type name %r" % (t,))


# --- C09 exact sub-domain ---------------------------------------------------

def mult_in_exact_domain(x, dv):
    """Is (instance x, divisor dv) inside the sub-domain on which the
    statement of C09 claims an exact verdict?"""
    xi, di = isinstance(x, int), isinstance(dv, int)
    if xi and di:
        return True
    if di:  # float instance, integer divisor: exact remainder when float(dv) is exact
        return abs(dv) <= 2 ** 53
    # float divisor
    if xi and abs(x) > 2 ** 53:
        return False
    xf = float(x)
    try:
        q = xf / dv
    except ZeroDivisionError:
        return False
    if q in (float("inf"), float("-inf")):
        return True          # overflow: the exact fallback is claimed
    return Fraction(q) == Fraction(xf) / Fraction(dv)


def is_multiple(x, dv):
    return (Fraction(x) / Fraction(dv)).denominator == 1


# --- evaluation context -----------------------------------------------------

class Ctx(object):
    def __init__(self, draft, resolver=None, fmt=None, eq=None, search=None):
        self.d = draft
        self.resolver = resolver      # object with .resolve(base, ref) -> (base, schema)
        self.fmt = fmt                # callable(name, instance) -> bool, or None (format ignored)
        self.eq = eq or equality.jeq
        self.search = search or re.search
        self.inexact = False          # a multipleOf pair outside the exact sub-domain was met
        self.refs = 0                 # references traversed
        self.ref_log = []
        self.depth = 0
        self.idkw = "id" if draft <= 4 else "$id"


def _aslist(v):
    return v if isinstance(v, list) else [v]


def _type_violations(ctx, s, x, base, key):
    d = ctx.d
    hit = False
    for t in _aslist(s[key]):
        if isinstance(t, str):
            if is_type(d, x, t):
                hit = True
        elif d == 3 and isinstance(t, dict):
            if valid(ctx, t, x, base):
                hit = True
        else:
            raise Unsupported("type element %r" % (t,))
    return hit


def kw_type(ctx, s, x, base):
    return [] if _type_violations(ctx, s, x, base, "type") else [True]


def kw_disallow(ctx, s, x, base):
    out = []
    for i, t in enumerate(_aslist(s["disallow"])):
        if isinstance(t, str):
            if is_type(ctx.d, x, t):
                out.append(i)
        elif isinstance(t, dict):
            if valid(ctx, t, x, base):
                out.append(i)
        else:
            raise Unsupported("disallow element")
    return out


def kw_extends(ctx, s, x, base):
    e = s["extends"]
    if isinstance(e, dict):
        return [] if valid(ctx, e, x, base) else [None]
    return [i for i, t in enumerate(e) if not valid(ctx, t, x, base)]


def kw_enum(ctx, s, x, base):
    return [] if any(ctx.eq(x, e) for e in s["enum"]) else [True]


def kw_const(ctx, s, x, base):
    return [] if ctx.eq(x, s["const"]) else [True]


def kw_minimum34(ctx, s, x, base):
    if not is_num(x):
        return []
    m = s["minimum"]
    if x < m or (s.get("exclusiveMinimum", False) and x == m):
        return [True]
    return []


def kw_maximum34(ctx, s, x, base):
    if not is_num(x):
        return []
    m = s["maximum"]
    if x > m or (s.get("exclusiveMaximum", False) and x == m):
        return [True]
    return []


def _cmp(key, bad):
    def kw(ctx, s, x, base):
        if not is_num(x):
            return []
        return [True] if bad(x, s[key]) else []
    return kw


kw_minimum = _cmp("minimum", lambda x, m: x < m)
kw_maximum = _cmp("maximum", lambda x, m: x > m)
kw_exclusiveMinimum = _cmp("exclusiveMinimum", lambda x, m: x <= m)
kw_exclusiveMaximum = _cmp("exclusiveMaximum", lambda x, m: x >= m)


def _multiple(key):
    def kw(ctx, s, x, base):
        if not is_num(x):
            return []
        dv = s[key]
        if not mult_in_exact_domain(x, dv):
            ctx.inexact = True
        return [] if is_multiple(x, dv) else [True]
    return kw


def _strlen(key, bad):
    def kw(ctx, s, x, base):
        if not isinstance(x, str):
            return []
        return [True] if bad(len(x), s[key]) else []
    return kw


def kw_pattern(ctx, s, x, base):
    if not isinstance(x, str):
        return []
    return [] if ctx.search(s["pattern"], x) else [True]


def _arrlen(key, bad):
    def kw(ctx, s, x, base):
        if not isinstance(x, list):
            return []
        return [True] if bad(len(x), s[key]) else []
    return kw


def kw_uniqueItems(ctx, s, x, base):
    if not isinstance(x, list) or s["uniqueItems"] is not True:
        if s["uniqueItems"] not in (True, False):
            raise Unsupported("uniqueItems value")
        return []
    for i in range(len(x)):
        for j in range(i):
            if ctx.eq(x[i], x[j]):
                return [True]
    return []


def kw_items(ctx, s, x, base):
    if not isinstance(x, list):
        return []
    it = s["items"]
    if isinstance(it, list):
        return [i for i, (sub, e) in enumerate(zip(it, x)) if not valid(ctx, sub, e, base)]
    return [i for i, e in enumerate(x) if not valid(ctx, it, e, base)]


def kw_additionalItems(ctx, s, x, base):
    if not isinstance(x, list):
        return []
    it = s.get("items", {})
    if not isinstance(it, list):
        return []          # items absent or a single schema: nothing is additional
    ai = s["additionalItems"]
    rest = list(enumerate(x))[len(it):]
    if ai is False:
        return [True] if rest else []       # boolean form: one violation at the parent
    if ai is True:
        return []
    return [i for i, e in rest if not valid(ctx, ai, e, base)]


def kw_contains(ctx, s, x, base):
    if not isinstance(x, list):
        return []
    return [] if any(valid(ctx, s["contains"], e, base) for e in x) else [True]


def _objlen(key, bad):
    def kw(ctx, s, x, base):
        if not isinstance(x, dict):
            return []
        return [True] if bad(len(x), s[key]) else []
    return kw


def kw_required(ctx, s, x, base):
    if not isinstance(x, dict):
        return []
    return [r for r in s["required"] if r not in x]


def kw_properties(ctx, s, x, base):
    if not isinstance(x, dict):
        return []
    out = []
    for k, sub in s["properties"].items():
        if k in x:
            if not valid(ctx, sub, x[k], base):
                out.append(k)
        elif ctx.d == 3 and isinstance(sub, dict) and sub.get("required", False) is True:
            out.append(("required", k))
    return out


def kw_patternProperties(ctx, s, x, base):
    if not isinstance(x, dict):
        return []
    out = []
    for p, sub in s["patternProperties"].items():
        for k in x:
            if ctx.search(p, k) and not valid(ctx, sub, x[k], base):
                out.append((p, k))
    return out


def additional_names(ctx, s, x):
    props = s.get("properties", {})
    pats = s.get("patternProperties", {})
    return [k for k in x if k not in props and not any(ctx.search(p, k) for p in pats)]


def kw_additionalProperties(ctx, s, x, base):
    if not isinstance(x, dict):
        return []
    ap = s["additionalProperties"]
    extra = additional_names(ctx, s, x)
    if ap is False:
        return [True] if extra else []
    if ap is True:
        return []
    return [k for k in extra if not valid(ctx, ap, x[k], base)]


def kw_propertyNames(ctx, s, x, base):
    if not isinstance(x, dict):
        return []
    return [k for k in x if not valid(ctx, s["propertyNames"], k, base)]


def kw_dependencies(ctx, s, x, base):
    if not isinstance(x, dict):
        return []
    out = []
    for k, dep in s["dependencies"].items():
        if k not in x:
            continue
        if isinstance(dep, str):
            if ctx.d != 3:
                raise Unsupported("string dependency")
            if dep not in x:
                out.append((k, dep))
        elif isinstance(dep, list):
            out.extend((k, r) for r in dep if r not in x)
        elif not valid(ctx, dep, x, base):
            out.append((k, None))
    return out


def kw_allOf(ctx, s, x, base):
    return [i for i, t in enumerate(s["allOf"]) if not valid(ctx, t, x, base)]


def kw_anyOf(ctx, s, x, base):
    return [] if any(valid(ctx, t, x, base) for t in s["anyOf"]) else [True]


def kw_oneOf(ctx, s, x, base):
    return [] if sum(1 for t in s["oneOf"] if valid(ctx, t, x, base)) == 1 else [True]


def kw_not(ctx, s, x, base):
    return [True] if valid(ctx, s["not"], x, base) else []


def kw_if(ctx, s, x, base):
    if valid(ctx, s["if"], x, base):
        if "then" in s and not valid(ctx, s["then"], x, base):
            return ["then"]
    elif "else" in s and not valid(ctx, s["else"], x, base):
        return ["else"]
    return []


def kw_format(ctx, s, x, base):
    if ctx.fmt is None:
        return []
    return [] if ctx.fmt(s["format"], x) else [True]


_lt = lambda n, m: n < m
_gt = lambda n, m: n > m

COMMON = {
    "type": kw_type, "enum": kw_enum,
    "minLength": _strlen("minLength", _lt), "maxLength": _strlen("maxLength", _gt),
    "pattern": kw_pattern,
    "minItems": _arrlen("minItems", _lt), "maxItems": _arrlen("maxItems", _gt),
    "uniqueItems": kw_uniqueItems, "items": kw_items, "additionalItems": kw_additionalItems,
    "properties": kw_properties, "patternProperties": kw_patternProperties,
    "additionalProperties": kw_additionalProperties, "dependencies": kw_dependencies,
    "format": kw_format,
}
D4PLUS = {
    "multipleOf": _multiple("multipleOf"),
    "minProperties": _objlen("minProperties", _lt), "maxProperties": _objlen("maxProperties", _gt),
    "required": kw_required,
    "allOf": kw_allOf, "anyOf": kw_anyOf, "oneOf": kw_oneOf, "not": kw_not,
}
KW = {
    3: dict(COMMON, disallow=kw_disallow, extends=kw_extends, divisibleBy=_multiple("divisibleBy"),
            minimum=kw_minimum34, maximum=kw_maximum34),
    4: dict(COMMON, minimum=kw_minimum34, maximum=kw_maximum34, **D4PLUS),
}
KW[6] = dict(COMMON, minimum=kw_minimum, maximum=kw_maximum,
             exclusiveMinimum=kw_exclusiveMinimum, exclusiveMaximum=kw_exclusiveMaximum,
             const=kw_const, contains=kw_contains, propertyNames=kw_propertyNames, **D4PLUS)
KW[7] = dict(KW[6])
KW[7]["if"] = kw_if

# sibling keywords a keyword is defined to consult (per draft)
SIBLINGS = {
    "additionalProperties": ("properties", "patternProperties"),
    "additionalItems": ("items",),
    "if": ("then", "else"),
}
SIBLINGS34 = dict(SIBLINGS, minimum=("exclusiveMinimum",), maximum=("exclusiveMaximum",))


def siblings(d, k):
    return (SIBLINGS34 if d <= 4 else SIBLINGS).get(k, ())


MAX_DEPTH = 200


def enter(ctx, s, base):
    """Return (schema to evaluate, base in effect) after following $ref chains."""
    hops = 0
    while isinstance(s, dict) and "$ref" in s:
        ref = s["$ref"]
        if not isinstance(ref, str):
            raise Unsupported("non-string $ref")
        if ctx.resolver is None:
            raise Unsupported("reference without resolver")
        base, s = ctx.resolver.resolve(base, ref)
        ctx.refs += 1
        ctx.ref_log.append(ref)
        hops += 1
        if hops > 50:
            raise Unsupported("reference cycle")
    return s, base


def valid(ctx, s, x, base=""):
    return not first_failing(ctx, s, x, base)


def first_failing(ctx, s, x, base=""):
    """Name of the first failing keyword of s (in schema order), '' if none;
    'false' for the false schema."""
    ctx.depth += 1
    try:
        if ctx.depth > MAX_DEPTH:
            raise Unsupported("evaluation too deep")
        s, base = enter(ctx, s, base)
        if isinstance(s, bool):
            if ctx.d < 6:
                raise Unsupported("boolean schema in draft %d" % ctx.d)
            return "" if s else "false"
        if not isinstance(s, dict):
            raise Unsupported("schema is %r" % type(s).__name__)
        sid = s.get(ctx.idkw)
        if isinstance(sid, str) and sid:
            base = ouri.join(base, sid)
        table = KW[ctx.d]
        for k in s:
            f = table.get(k)
            if f is not None and f(ctx, s, x, base):
                return k
        return ""
    finally:
        ctx.depth -= 1


def keyword_violations(ctx, s, k, x, base=""):
    """Violations of the single keyword k of schema object s (siblings are
    available as context only).  s must not be a reference object."""
    sid = s.get(ctx.idkw)
    if isinstance(sid, str) and sid:
        base = ouri.join(base, sid)
    return KW[ctx.d][k](ctx, s, x, base)


def applicable(d, k, x):
    """Does keyword k look at instances of x's JSON type at all?"""
    if k in ("minimum", "maximum", "exclusiveMinimum", "exclusiveMaximum", "multipleOf", "divisibleBy"):
        return is_num(x)
    if k in ("minLength", "maxLength", "pattern"):
        return isinstance(x, str)
    if k in ("minItems", "maxItems", "uniqueItems", "items", "additionalItems", "contains"):
        return isinstance(x, list)
    if k in ("minProperties", "maxProperties", "required", "properties", "patternProperties",
             "additionalProperties", "propertyNames", "dependencies"):
        return isinstance(x, dict)
    return True


class WorldResolver(object):
    """Independent resolver over a *world*: {uri-without-fragment: document}.
    RFC 3986 join (O-URI) + RFC 6901 evaluation (O-PTR)."""

    def __init__(self, docs, on_missing=None):
        self.docs = dict((self.norm(u), d) for u, d in docs.items())
        self.on_missing = on_missing

    @staticmethod
    def norm(u):
        u = u[:-1] if u.endswith("#") else u
        return u

    def resolve(self, base, ref):
        target = ouri.join(base, ref)
        doc_uri, _, frag = target.partition("#")
        doc_uri = self.norm(doc_uri)
        if doc_uri not in self.docs:
            if self.on_missing is not None:
                doc = self.on_missing(doc_uri)
            else:
                raise Unresolvable(target)
        else:
            doc = self.docs[doc_uri]
        try:
            sub = optr.evaluate(doc, optr.decode_fragment(frag))
        except optr.PointerError:
            raise Unresolvable(target)
        return doc_uri, sub


class Unresolvable(Exception):
    pass
