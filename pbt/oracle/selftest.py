"""Self-test of O-SPEC against the official JSON-Schema-Test-Suite shipped in the repository."""
import glob
import json
import os

from .. import harness
from . import spec

SKIP_FILES = {"format", "refRemote"}
SKIP_CASES = ("Location-independent identifier", "Recursive references between schemas")
_done = {}


def _metas():
    docs = {}
    for n, u in (("draft3", "http://json-schema.org/draft-03/schema"), ("draft4", "http://json-schema.org/draft-04/schema"),
                 ("draft6", "http://json-schema.org/draft-06/schema"), ("draft7", "http://json-schema.org/draft-07/schema")):
        with open(os.path.join(harness.REPO, "jsonschema", "schemas", n + ".json")) as f:
            docs[u] = json.load(f)
    return docs


def run():
    if _done.get("ok"):
        return _done["ok"]
    n = 0
    bad = []
    metas = _metas()
    for d in (3, 4, 6, 7):
        base = os.path.join(harness.REPO, "json", "tests", "draft%d" % d)
        files = sorted(glob.glob(base + "/*.json"))
        for opt in ("bignum", "non-bmp-regex") + (("zeroTerminatedFloats",) if d <= 4 else ()):
            p = os.path.join(base, "optional", opt + ".json")
            if os.path.exists(p):
                files.append(p)
        for f in files:
            name = os.path.basename(f)[:-5]
            if name in SKIP_FILES:
                continue
            with open(f) as fh:
                groups = json.load(fh)
            for g in groups:
                if any(g["description"].startswith(p) for p in SKIP_CASES):
                    continue
                s = g["schema"]
                for t in g["tests"]:
                    docs = dict(metas)
                    docs[""] = s
                    ctx = spec.Ctx(d, resolver=spec.WorldResolver(docs))
                    try:
                        got = spec.valid(ctx, s, t["data"], "")
                    except (spec.Unsupported, spec.Unresolvable, RecursionError) as e:
                        bad.append((d, name, g["description"], t["description"], repr(e)))
                        continue
                    if ctx.inexact:
                        continue
                    n += 1
                    if got != t["valid"]:
                        bad.append((d, name, g["description"], t["description"], got))
    if bad:
        raise AssertionError("O-SPEC disagrees with the official suite on %d points, e.g. %r" % (len(bad), bad[:5]))
    if n < 1500:
        raise AssertionError("O-SPEC self-test only reached %d suite points" % n)
    _done["ok"] = n
    return n
