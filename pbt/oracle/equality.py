"""O-EQ: JSON equality, written from the JSON data model (no jsonschema import)."""


def is_num(x):
    return isinstance(x, (int, float)) and not isinstance(x, bool)


def jeq(a, b):
    if isinstance(a, bool) or isinstance(b, bool):
        return isinstance(a, bool) and isinstance(b, bool) and a is b
    if a is None or b is None:
        return a is None and b is None
    if is_num(a) or is_num(b):
        # Python compares int and float by exact mathematical value
        return is_num(a) and is_num(b) and a == b
    if isinstance(a, str) or isinstance(b, str):
        return isinstance(a, str) and isinstance(b, str) and a == b
    if isinstance(a, list) or isinstance(b, list):
        return (isinstance(a, list) and isinstance(b, list) and len(a) == len(b)
                and all(jeq(x, y) for x, y in zip(a, b)))
    if isinstance(a, dict) and isinstance(b, dict):
        return a.keys() == b.keys() and all(jeq(a[k], b[k]) for k in a)
    raise TypeError("not JSON values: %r %r" % (type(a), type(b)))


def pyeq(a, b):
    """Python == with only the top-level bool/number distinction (what the code
    did before issue 686 was repaired); used to route C08-domain cases."""
    if isinstance(a, bool) != isinstance(b, bool):
        return False
    return a == b
