import re
HEX=set("0123456789abcdefABCDEF"); DIG=set("0123456789")
def ipv4(s):
    parts=s.split(".")
    if len(parts)!=4: return False
    for p in parts:
        if not p or len(p)>3 or any(c not in DIG for c in p): return False
        if len(p)>1 and p[0]=="0": return False
        if int(p)>255: return False
    return True
def ipv4_tail(p):
    """True/False/None(don't care: leading zeros)"""
    parts=p.split(".")
    if len(parts)!=4: return False
    dc=False
    for q in parts:
        if not q or len(q)>3 or any(c not in DIG for c in q): return False
        if int(q)>255: return False
        if len(q)>1 and q[0]=="0": dc=True
    return None if dc else True
def ipv6(s):
    if s.count("::")>1 or ":::" in s: return False
    def groups(part, allow_tail):
        if part=="": return 0, True
        gs=part.split(":"); n=0; ok=True
        for idx,g in enumerate(gs):
            if "." in g:
                if not(allow_tail and idx==len(gs)-1): return 0, False
                t=ipv4_tail(g)
                if t is False: return 0, False
                if t is None: ok=None
                n+=2
            else:
                if not (1<=len(g)<=4) or any(c not in HEX for c in g): return 0, False
                n+=1
        return n, ok
    if "::" in s:
        l,r=s.split("::")
        nl,okl=groups(l, False); nr,okr=groups(r, True)
        if okl is False or okr is False: return False
        if nl+nr>7: return False
        return None if okr is None else True
    n,ok=groups(s, True)
    if ok is False or s=="" : return False
    if n!=8: return False
    return ok
def date(s):
    m=re.fullmatch(r"([0-9]{4})-([0-9]{2})-([0-9]{2})", s, re.ASCII)
    if not m: return False
    y,mo,d=map(int,m.groups())
    if y==0: return None
    if not 1<=mo<=12: return False
    dim=[31,29 if (y%4==0 and (y%100!=0 or y%400==0)) else 28,31,30,31,30,31,31,30,31,30,31][mo-1]
    return 1<=d<=dim
