"""O-URI: RFC 3986 section 5.2 reference resolution.  No urllib."""
import re

_P = re.compile(r"^(([^:/?#]+):)?(//([^/?#]*))?([^?#]*)(\?([^#]*))?(#(.*))?$", re.S)


def parse(u):
    m = _P.match(u)
    return (m.group(2), m.group(4), m.group(5), m.group(7), m.group(9))


def remove_dot_segments(path):
    out = []
    i = path
    while i:
        if i.startswith("../"):
            i = i[3:]
        elif i.startswith("./"):
            i = i[2:]
        elif i.startswith("/./"):
            i = i[2:]
        elif i == "/.":
            i = "/"
        elif i.startswith("/../"):
            i = i[3:]
            if out:
                out.pop()
        elif i == "/..":
            i = "/"
            if out:
                out.pop()
        elif i in (".", ".."):
            i = ""
        else:
            j = i.find("/", 1)
            if j < 0:
                out.append(i)
                i = ""
            else:
                out.append(i[:j])
                i = i[j:]
    return "".join(out)


def join(base, ref):
    bs, ba, bp, bq, bf = parse(base)
    rs, ra, rp, rq, rf = parse(ref)
    if rs is not None:
        ts, ta, tp, tq = rs, ra, remove_dot_segments(rp), rq
    else:
        if ra is not None:
            ta, tp, tq = ra, remove_dot_segments(rp), rq
        else:
            if rp == "":
                tp = bp
                tq = rq if rq is not None else bq
            else:
                if rp.startswith("/"):
                    tp = remove_dot_segments(rp)
                else:
                    if ba is not None and bp == "":
                        m = "/" + rp
                    else:
                        m = bp[:bp.rfind("/") + 1] + rp
                    tp = remove_dot_segments(m)
                tq = rq
            ta = ba
        ts = bs
    r = ""
    if ts is not None:
        r += ts + ":"
    if ta is not None:
        r += "//" + ta
    r += tp
    if tq is not None:
        r += "?" + tq
    if rf is not None:
        r += "#" + rf
    return r


def defrag(u):
    i = u.find("#")
    return (u, "") if i < 0 else (u[:i], u[i + 1:])
