"""Access to the code under test (always through pbt.harness.bind_repo) and
canonical, comparable renderings of what it reports."""
import json

from . import harness

harness.bind_repo()

import jsonschema                                   # noqa: E402
from jsonschema import exceptions, validators       # noqa: E402

CLS = {3: jsonschema.Draft3Validator, 4: jsonschema.Draft4Validator,
       6: jsonschema.Draft6Validator, 7: jsonschema.Draft7Validator}
DRAFTS = (3, 4, 6, 7)
IDKW = {3: "id", 4: "id", 6: "$id", 7: "$id"}
DRAFT_CHECKERS = {3: jsonschema.draft3_format_checker, 4: jsonschema.draft4_format_checker,
                  6: jsonschema.draft6_format_checker, 7: jsonschema.draft7_format_checker}


def cj(v):
    """canonical JSON text of a value (keys sorted: objects are unordered)"""
    try:
        return json.dumps(v, sort_keys=True, ensure_ascii=True)
    except (TypeError, ValueError):
        return "<unserialisable %s>" % type(v).__name__


def alias_equal(v, pool=None):
    """The same JSON value, but with every array / object that occurs more than once (equal as JSON text, member
    order included) represented by ONE Python object wherever it occurs: what json.loads never produces and
    programs that assemble schemas from shared parts always do.  Nothing may depend on object identity."""
    pool = {} if pool is None else pool
    if isinstance(v, dict):
        new = dict((k, alias_equal(e, pool)) for k, e in v.items())
    elif isinstance(v, list):
        new = [alias_equal(e, pool) for e in v]
    else:
        return v
    key = json.dumps(new, sort_keys=False, default=repr)
    return pool.setdefault(key, new)


def errkey(e, message=True, value=True, instance=False):
    """Comparable identity of an error: keyword, message, paths, value, context (recursively, as a sorted multiset)."""
    ctx = sorted(errkey(c, message, value, instance) for c in e.context)
    return (str(e.validator), e.message if message else "", cj(list(e.path)), cj(list(e.schema_path)),
            cj(e.validator_value) if value and e.validator is not None else "",
            cj(e.instance) if instance else "", tuple(ctx))


def errkeys(errors, **kw):
    return sorted(errkey(e, **kw) for e in errors)


def tname(exc):
    return type(exc).__name__


def stack_depth(resolver):
    """Depth of the resolver's scope stack (the state the properties name); -1 if the attribute is gone
    after a refactoring -- the public resolution_scope is then the only observation."""
    st = getattr(resolver, "_scopes_stack", None)
    try:
        return len(st)
    except TypeError:
        return -1
